package stress

import (
	"bytes"
	"errors"
	"fmt"
	"io"
	"math/big"
	"math/rand"
	"sort"
	"strings"
	"sync/atomic"
	"time"

	"github.com/multiversx/mx-chain-core-go/data"
	"github.com/multiversx/mx-chain-core-go/data/transaction"
	logger "github.com/multiversx/mx-chain-logger-go"
	"github.com/multiversx/mx-chain-storage-go/txcache"
	"github.com/multiversx/mx-chain-storage-go/types"
)

// ---------------------------------------------------------------- transactions, host, session

type txSpec struct {
	hash, sender, relayer     []byte
	nonce, gasLimit, gasPrice uint64
	size                      int64
	fee                       *big.Int
	value                     *big.Int    // may be nil
	started                   atomic.Bool // an AddTx of this transaction has begun
	finished                  atomic.Bool // an AddTx of this transaction has returned
}

func (t *txSpec) feePayer() []byte {
	if len(t.relayer) > 0 {
		return t.relayer
	}
	return t.sender
}

// wrapped: a FRESH object per AddTx call (AddTx writes the precomputed fields of its argument).
func (t *txSpec) wrapped() *txcache.WrappedTransaction {
	return &txcache.WrappedTransaction{
		Tx: &transaction.Transaction{Nonce: t.nonce, SndAddr: t.sender, GasLimit: t.gasLimit, GasPrice: t.gasPrice,
			RelayerAddr: t.relayer, Data: t.hash, Value: big.NewInt(0)},
		TxHash: t.hash,
		Size:   t.size,
	}
}

// host: read-only table, yields inside the callbacks
type host struct{ byHash map[string]*txSpec }

func (h *host) ComputeTxFee(tx data.TransactionWithFeeHandler) *big.Int {
	maybeYield()
	return new(big.Int).Set(h.byHash[string(tx.(*transaction.Transaction).Data)].fee)
}
func (h *host) GetTransferredValue(tx data.TransactionHandler) *big.Int {
	maybeYield()
	t := h.byHash[string(tx.(*transaction.Transaction).Data)]
	if t.value == nil {
		return nil
	}
	return new(big.Int).Set(t.value)
}
func (h *host) IsInterfaceNil() bool { return h == nil }

type acctState struct {
	nonce   uint64
	balance *big.Int
}

// session: immutable once built (one per selection), yields inside the callbacks
type session struct {
	accts   map[string]acctState
	guarded map[string]bool
}

func (s *session) GetAccountState(k []byte) (*types.AccountState, error) {
	maybeYield()
	a, ok := s.accts[string(k)]
	if !ok {
		return nil, errors.New("account not found")
	}
	return &types.AccountState{Nonce: a.nonce, Balance: new(big.Int).Set(a.balance)}, nil
}
func (s *session) IsIncorrectlyGuarded(tx data.TransactionHandler) bool {
	maybeYield()
	return s.guarded[string(tx.(*transaction.Transaction).Data)]
}
func (s *session) IsInterfaceNil() bool    { return s == nil }
func (s *session) nonceOf(a []byte) uint64 { return s.accts[string(a)].nonce }
func (s *session) balanceOf(a []byte) *big.Int {
	if st, ok := s.accts[string(a)]; ok {
		return st.balance
	}
	return big.NewInt(0)
}

// precedes: nonce asc, gas price desc, hash asc (the order the property text gives)
func precedes(a, b *txSpec) bool {
	if a.nonce != b.nonce {
		return a.nonce < b.nonce
	}
	if a.gasPrice != b.gasPrice {
		return a.gasPrice > b.gasPrice
	}
	return bytes.Compare(a.hash, b.hash) < 0
}

// ---------------------------------------------------------------- universe of a phase

type universe struct {
	txs     []*txSpec
	byHash  map[string]*txSpec
	senders [][]byte
	hst     *host
}

func makeUniverse(rng *rand.Rand, nSenders, perSender int, uniformSize bool) *universe {
	u := &universe{byHash: map[string]*txSpec{}}
	for s := 0; s < nSenders; s++ {
		u.senders = append(u.senders, []byte(fmt.Sprintf("S%02d", s)))
	}
	relayers := [][]byte{[]byte("R"), u.senders[0]}
	id := 0
	for _, snd := range u.senders {
		nonce := uint64(0)
		for k := 0; k < perSender; k++ {
			t := &txSpec{sender: snd, nonce: nonce}
			t.hash = []byte(fmt.Sprintf("h%04d-%s", id, snd))
			id++
			t.gasPrice = []uint64{100, 200, 200, 300}[rng.Intn(4)]
			t.gasLimit = []uint64{50000, 50000, 75000, 100000}[rng.Intn(4)]
			ppu := []uint64{1, 2, 2, 3, 3, 1000}[rng.Intn(6)]
			t.fee = new(big.Int).Mul(new(big.Int).SetUint64(ppu), new(big.Int).SetUint64(t.gasLimit))
			if rng.Intn(3) == 0 {
				t.fee.Add(t.fee, big.NewInt(int64(rng.Intn(40000))))
			}
			switch rng.Intn(4) {
			case 0:
				t.value = nil
			case 1:
				t.value = big.NewInt(0)
			default:
				t.value = big.NewInt(int64(rng.Intn(1000000)))
			}
			if rng.Intn(6) == 0 {
				t.relayer = relayers[rng.Intn(2)]
				if bytes.Equal(t.relayer, t.sender) {
					t.relayer = []byte("R")
				}
			} else {
				t.relayer = []byte{}
			}
			t.size = []int64{1, 50, 100, 100, 128, 300}[rng.Intn(6)]
			if uniformSize {
				t.size = 100
			}
			u.txs = append(u.txs, t)
			u.byHash[string(t.hash)] = t
			// same-nonce alternatives, small gaps, mostly consecutive
			switch rng.Intn(10) {
			case 0, 1:
			case 2:
				nonce += 2
			default:
				nonce++
			}
		}
	}
	u.hst = &host{byHash: u.byHash}
	return u
}

func (u *universe) randSession(rng *rand.Rand) *session {
	s := &session{accts: map[string]acctState{}, guarded: map[string]bool{}}
	addrs := append(append([][]byte{}, u.senders...), []byte("R"))
	for _, a := range addrs {
		if rng.Intn(9) == 0 {
			continue // lookup failure
		}
		bal := []*big.Int{big.NewInt(0), big.NewInt(400000), new(big.Int).Exp(big.NewInt(10), big.NewInt(15), nil),
			new(big.Int).Exp(big.NewInt(10), big.NewInt(22), nil), new(big.Int).Exp(big.NewInt(10), big.NewInt(22), nil)}[rng.Intn(5)]
		s.accts[string(a)] = acctState{nonce: []uint64{0, 0, 0, 1, 2, 3}[rng.Intn(6)], balance: bal}
	}
	for i := 0; i < len(u.txs)/15; i++ {
		s.guarded[string(u.txs[rng.Intn(len(u.txs))].hash)] = true
	}
	return s
}

// ---------------------------------------------------------------- the monitors of C01 / C02 on one selection result
// (the logic of pool.monitorSelect; "member of the pool" becomes: a transaction of the universe
// whose AddTx had begun when the selection returned — the pool is moving)

func judgeSelection(u *universe, sess *session, gas uint64, mx int, txs []*txcache.WrappedTransaction, accGas uint64) []string {
	var out []string
	sel := make([]*txSpec, 0, len(txs))
	for _, w := range txs {
		t, ok := u.byHash[string(w.TxHash)]
		if !ok {
			return []string{fmt.Sprintf("C02: selected transaction %s is unknown", w.TxHash)}
		}
		sel = append(sel, t)
	}
	per := map[string][]uint64{}
	for _, t := range sel {
		per[string(t.sender)] = append(per[string(t.sender)], t.nonce)
	}
	for sn, ns := range per {
		if ns[0] != sess.nonceOf([]byte(sn)) {
			out = append(out, fmt.Sprintf("C01: sender %s: lowest selected nonce %d differs from the account nonce %d", sn, ns[0], sess.nonceOf([]byte(sn))))
		}
		for k := 1; k < len(ns); k++ {
			if ns[k] != ns[k-1]+1 || ns[k] < ns[k-1] {
				out = append(out, fmt.Sprintf("C01: sender %s: selected nonces %v are not strictly consecutive in order", sn, ns))
				break
			}
		}
	}
	seen := map[string]bool{}
	sum := new(big.Int)
	committed := map[string]*big.Int{}
	get := func(a []byte) *big.Int {
		if committed[string(a)] == nil {
			committed[string(a)] = new(big.Int)
		}
		return committed[string(a)]
	}
	for _, t := range sel {
		if seen[string(t.hash)] {
			out = append(out, fmt.Sprintf("C02: transaction %s selected twice", t.hash))
		}
		seen[string(t.hash)] = true
		if !t.started.Load() {
			out = append(out, fmt.Sprintf("C02: selected transaction %s was never handed to AddTx (not a member of the pool)", t.hash))
		}
		sum.Add(sum, new(big.Int).SetUint64(t.gasLimit))
		if sess.guarded[string(t.hash)] {
			out = append(out, fmt.Sprintf("C02: selected transaction %s is reported incorrectly guarded by the session", t.hash))
		}
		need := new(big.Int).Add(get(t.feePayer()), t.fee)
		if need.Cmp(sess.balanceOf(t.feePayer())) > 0 {
			out = append(out, fmt.Sprintf("C02: fee payer %s of %s has balance %s, needs %s", t.feePayer(), t.hash, sess.balanceOf(t.feePayer()), need))
		}
		get(t.feePayer()).Add(get(t.feePayer()), t.fee)
		if t.value != nil {
			get(t.sender).Add(get(t.sender), t.value)
		}
	}
	if len(sel) > mx {
		out = append(out, fmt.Sprintf("C02: %d transactions selected, maxNum = %d", len(sel), mx))
	}
	if sum.Cmp(new(big.Int).SetUint64(accGas)) != 0 {
		out = append(out, fmt.Sprintf("C02: gas limits of the result sum to %s, returned accumulated gas is %d", sum, accGas))
	}
	if accGas > gas {
		out = append(out, fmt.Sprintf("C02: accumulated gas %d exceeds gasRequested %d", accGas, gas))
	}
	return out
}

// checkList: a per-sender list read at some instant is strictly ordered, of one sender, without duplicates
func checkList(u *universe, sn string, l []*txcache.WrappedTransaction) string {
	var prev *txSpec
	for _, w := range l {
		t, ok := u.byHash[string(w.TxHash)]
		if !ok {
			return fmt.Sprintf("list of %s holds unknown transaction %s", sn, w.TxHash)
		}
		if string(t.sender) != sn {
			return fmt.Sprintf("transaction %s of sender %s is in the list of %s", t.hash, t.sender, sn)
		}
		if prev != nil && !precedes(prev, t) {
			return fmt.Sprintf("list of %s is not ordered by nonce asc / gas price desc / hash asc at %s, %s", sn, prev.hash, t.hash)
		}
		prev = t
	}
	return ""
}

// ---------------------------------------------------------------- the common txcache workload

type txPlan struct {
	name                string
	cfg                 txcache.ConfigSourceMe
	nSenders, perSender int
	uniform             bool
	adders, removers    int
	clearers            int
	selectors, readers  int
	readds              int // epochs: the writers run this many times, with a quiescent instant (all monitors) after each
	delayWeight         uint64
	addOnly             bool // monitors: all present, lists = sorted sets
	quiescent           bool // monitors: CountTx = |Keys|, NumBytes = sum Size
	indexesAgree        bool // monitor at quiescence: Keys = union of the lists (AddTx/RemoveTxByHash fully atomic: no eviction, no limit hit)
	perSenderCountLimit int  // > 0: probe len(list) <= limit at every instant
	trace               bool // logging at TRACE into a discarding observer (Diagnose paths)
}

func baseCfg(rng *rand.Rand) txcache.ConfigSourceMe {
	return txcache.ConfigSourceMe{Name: "stress", NumChunks: []uint32{1, 2, 16, 128}[rng.Intn(4)], EvictionEnabled: false,
		NumBytesThreshold: 1 << 28, NumBytesPerSenderThreshold: 1 << 24, CountThreshold: 1 << 20, CountPerSenderThreshold: 1 << 20,
		NumItemsToPreemptivelyEvict: 1}
}

func runTxPlan(c *collector, roundSeed int64, scale int, pl txPlan) {
	p := c.newPhase(pl.name, roundSeed, scale)
	rng := p.rng()
	u := makeUniverse(rng, pl.nSenders, pl.perSender*scale, pl.uniform)
	cache, err := txcache.NewTxCache(pl.cfg, u.hst)
	if err != nil {
		p.failf("monitor", "NewTxCache rejected the configuration: %v", err)
		return
	}
	dp := &delayPlan{seed: uint64(p.seed), weight: pl.delayWeight}
	dp.install()
	defer uninstallHook()
	if pl.trace {
		logger.ClearLogObservers()
		_ = logger.AddLogObserver(io.Discard, &logger.PlainFormatter{})
		_ = logger.SetLogLevel("*:TRACE")
		defer func() { _ = logger.SetLogLevel("*:NONE") }()
	}
	var nAdd, nRem, nSel, nRead, nClear, nProbe atomic.Int64
	var selNonEmpty atomic.Int64

	// adders: each owns a share of the universe and also adds a third of its neighbour's share
	shares := make([][]*txSpec, pl.adders)
	perm := rng.Perm(len(u.txs))
	for i, k := range perm {
		a := i % pl.adders
		shares[a] = append(shares[a], u.txs[k])
		if i%3 == 0 {
			shares[(a+1)%pl.adders] = append(shares[(a+1)%pl.adders], u.txs[k])
		}
	}
	spawnWriters := func(epoch int) {
		p.worker(pl.adders, "AddTx", func(id int, r *rand.Rand) {
			for pass := 0; pass < 1; pass++ {
				mine := append([]*txSpec{}, shares[id]...)
				r.Shuffle(len(mine), func(i, j int) { mine[i], mine[j] = mine[j], mine[i] })
				for _, t := range mine {
					t.started.Store(true)
					ok, _ := cache.AddTx(t.wrapped())
					t.finished.Store(true)
					nAdd.Add(1)
					if !ok {
						p.failf("monitor", "AddTx(%s) returned ok=false", t.hash)
					}
					if pl.addOnly {
						c.eval("probe_added_present")
						if _, found := cache.GetByTxHash(t.hash); !found {
							p.failf("monitor", "add-only phase: AddTx(%s) returned but GetByTxHash does not find it", t.hash)
						}
					}
				}
			}
			if id == 0 && epoch == 0 {
				// the degenerate arguments are part of the public surface
				cache.AddTx(nil)
				cache.AddTx(&txcache.WrappedTransaction{})
			}
		})
		p.worker(pl.removers, "RemoveTxByHash", func(id int, r *rand.Rand) {
			n := len(u.txs) / 2
			for i := 0; i < n; i++ {
				t := u.txs[r.Intn(len(u.txs))]
				if r.Intn(2) == 0 {
					cache.RemoveTxByHash(t.hash)
				} else {
					cache.Remove(t.hash)
				}
				nRem.Add(1)
				if i%7 == 0 {
					time.Sleep(time.Duration(r.Intn(80)) * time.Microsecond)
				}
			}
		})
		p.worker(pl.clearers, "Clear", func(id int, r *rand.Rand) {
			for i := 0; i < 3; i++ {
				time.Sleep(time.Duration(200+r.Intn(1500)) * time.Microsecond)
				cache.Clear()
				nClear.Add(1)
			}
		})
	}
	p.background(pl.selectors, "SelectTransactions", func(id int, r *rand.Rand) {
		sess := u.randSession(r)
		gas := []uint64{0, 120000, 400000, 10_000_000_000, 10_000_000_000, 1<<63 + 10, ^uint64(0)}[r.Intn(7)]
		mx := []int{0, 1, 3, 10, 30000, 30000}[r.Intn(6)]
		dur := []time.Duration{time.Hour, time.Hour, time.Hour, 0, 50 * time.Microsecond}[r.Intn(5)]
		txs, acc := cache.SelectTransactions(sess, gas, mx, dur)
		k := nSel.Add(1)
		c.eval("selections_judged")
		if len(txs) > 0 {
			selNonEmpty.Add(1)
		}
		if fails := judgeSelection(u, sess, gas, mx, txs, acc); len(fails) > 0 {
			hs := make([]string, len(txs))
			for i, w := range txs {
				hs[i] = string(w.TxHash)
			}
			p.failf("monitor", "concurrent selection #%d (gas=%d maxNum=%d) violates %s | result=[%s]", k, gas, mx, strings.Join(fails, "; "), strings.Join(hs, " "))
		} else if k == 5 && len(txs) > 0 {
			c.sample(fmt.Sprintf("%s round %d: selection #%d returned %d transactions of %d senders (gas %d of %d), C01 and C02 hold, while %d AddTx / %d removals had completed",
				pl.name, c.round, k, len(txs), countSenders(txs), acc, gas, nAdd.Load(), nRem.Load()))
		}
		if id == 0 && k%16 == 0 {
			cache.SelectTransactions(nil, gas, mx, dur) // nil session: refused
		}
	})
	p.background(pl.readers, "readers", func(id int, r *rand.Rand) {
		nRead.Add(1)
		switch r.Intn(9) {
		case 0, 1, 2:
			sn := u.senders[r.Intn(len(u.senders))]
			l := cache.GetTransactionsPoolForSender(string(sn))
			nProbe.Add(1)
			c.eval("probe_sender_list_ordered")
			if msg := checkList(u, string(sn), l); msg != "" {
				p.failf("monitor", "at a probe instant: %s", msg)
			}
			if pl.perSenderCountLimit > 0 {
				c.eval("probe_per_sender_count")
				if len(l) > pl.perSenderCountLimit {
					p.failf("monitor", "at a probe instant sender %s holds %d transactions > CountPerSenderThreshold %d", sn, len(l), pl.perSenderCountLimit)
				}
			}
		case 3:
			keys := cache.Keys()
			seen := map[string]bool{}
			for _, k := range keys {
				if seen[string(k)] {
					p.failf("monitor", "Keys() lists %s twice", k)
				}
				seen[string(k)] = true
			}
			c.eval("probe_keys_distinct")
		case 4:
			cache.ForEachTransaction(func(h []byte, w *txcache.WrappedTransaction) {
				maybeYield()
				if !bytes.Equal(h, w.TxHash) {
					p.failf("monitor", "ForEachTransaction: key %s holds transaction %s", h, w.TxHash)
				}
			})
		case 5:
			t := u.txs[r.Intn(len(u.txs))]
			w, ok := cache.GetByTxHash(t.hash)
			if ok && !bytes.Equal(w.TxHash, t.hash) {
				p.failf("monitor", "GetByTxHash(%s) returned %s", t.hash, w.TxHash)
			}
			cache.Has(t.hash)
			cache.Get(t.hash)
			cache.Peek(t.hash)
		case 6:
			_ = cache.CountTx()
			_ = cache.NumBytes()
			_ = cache.CountSenders()
			_ = cache.Len()
			_ = cache.MaxSize()
			_ = cache.SizeInBytesContained()
		case 7:
			if pl.trace {
				cache.Diagnose(true)
			}
			cache.ImmunizeTxsAgainstEviction(nil)
			_ = cache.IsInterfaceNil()
		default:
			// the not-implemented part of the Cacher interface must be harmless too
			cache.Put(nil, nil, 0)
			cache.HasOrAdd(nil, nil, 0)
			cache.RegisterHandler(nil, "")
			cache.UnRegisterHandler("")
		}
	})
	for epoch := 0; epoch < pl.readds; epoch++ {
		spawnWriters(epoch)
		if !waitTimeout(&p.main, c.watchdog) {
			p.mainTimedOut = true
			p.join()
			return
		}
		// all writers have finished (selectors and readers go on): a quiescent instant
		quiescentChecks(c, p, pl, u, cache, nAdd.Load(), nRem.Load())
	}
	if !p.join() {
		return
	}
	_ = cache.Close()
	c.add("ops_txcache_addtx", nAdd.Load())
	c.add("ops_txcache_remove", nRem.Load())
	c.add("ops_txcache_select", nSel.Load())
	c.add("ops_txcache_read", nRead.Load())
	c.add("ops_txcache_clear", nClear.Load())
	c.add("selections_nonempty", selNonEmpty.Load())
	for i := range pausePoints {
		c.add("pause_hits."+pausePoints[i], dp.hits[i].Load())
	}

	quiescentChecks(c, p, pl, u, cache, nAdd.Load(), nRem.Load())
	if pl.cfg.EvictionEnabled && pl.clearers == 0 {
		// C06 after concurrent use: once everything has finished, the next insertions run their eviction, so after
		// each of them the pool exceeds the thresholds by at most the transaction just added
		extra := makeUniverse(p.rng(), 1, 6, true)
		{
			for _, t := range extra.txs {
				t.hash = append([]byte("late-"), t.hash...)
				t.sender = []byte("LATE")
				registerLate(u, t)
				cache.AddTx(t.wrapped())
				c.eval("quiescent_pool_wide_bound_after_next_insertion")
				if cache.CountTx() > uint64(pl.cfg.CountThreshold)+1 || cache.CountSenders() > uint64(pl.cfg.CountThreshold)+1 ||
					int64(cache.NumBytes()) > int64(pl.cfg.NumBytesThreshold)+t.size {
					p.failf("monitor", "after all goroutines finished, a further AddTx leaves CountTx=%d CountSenders=%d NumBytes=%d over the thresholds (count %d, bytes %d) by more than the transaction just added: eviction no longer runs",
						cache.CountTx(), cache.CountSenders(), cache.NumBytes(), pl.cfg.CountThreshold, pl.cfg.NumBytesThreshold)
				}
			}
		}
	}
	if !p.failed.Load() && c.round == 0 {
		c.sample(fmt.Sprintf("%s round 0: %d goroutines, %d AddTx, %d removals, %d selections judged (%d non-empty), %d ordered-list probes, %d quiescent instants; at the end CountTx=%d=|Keys|, NumBytes=%d",
			pl.name, p.nGo, nAdd.Load(), nRem.Load(), nSel.Load(), selNonEmpty.Load(), nProbe.Load(), pl.readds+1, cache.CountTx(), cache.NumBytes()))
	}
}

// quiescentChecks: no AddTx / RemoveTxByHash / Clear / eviction is in flight
func quiescentChecks(c *collector, p *phase, pl txPlan, u *universe, cache *txcache.TxCache, nAdds, nRems int64) {
	keys := cache.Keys()
	keySet := map[string]bool{}
	var total int64
	for _, k := range keys {
		keySet[string(k)] = true
		if t, ok := u.byHash[string(k)]; ok {
			total += t.size
		} else {
			p.failf("monitor", "quiescent: unknown hash %s reachable", k)
		}
	}
	if pl.quiescent {
		c.eval("quiescent_counters")
		if cache.CountTx() != uint64(len(keySet)) || cache.Len() != len(keySet) {
			p.failf("monitor", "quiescent counters: CountTx=%d Len=%d but %d hashes are reachable (after %d AddTx, %d removals)", cache.CountTx(), cache.Len(), len(keySet), nAdds, nRems)
		}
		if int64(cache.NumBytes()) != total {
			p.failf("monitor", "quiescent counters: NumBytes=%d but the reachable transactions total %d bytes", cache.NumBytes(), total)
		}
		n := 0
		cache.ForEachTransaction(func(h []byte, w *txcache.WrappedTransaction) { n++ })
		if n != len(keySet) {
			p.failf("monitor", "quiescent: ForEachTransaction visits %d transactions, Keys() lists %d", n, len(keySet))
		}
	}
	listed := map[string]bool{}
	for _, sn := range u.senders {
		l := cache.GetTransactionsPoolForSender(string(sn))
		c.eval("probe_sender_list_ordered")
		if msg := checkList(u, string(sn), l); msg != "" {
			p.failf("monitor", "quiescent: %s", msg)
		}
		for _, w := range l {
			listed[string(w.TxHash)] = true
		}
		if pl.perSenderCountLimit > 0 && len(l) > pl.perSenderCountLimit {
			p.failf("monitor", "quiescent: sender %s holds %d transactions > CountPerSenderThreshold %d", sn, len(l), pl.perSenderCountLimit)
		}
		if pl.addOnly {
			var exp []*txSpec
			for _, t := range u.txs {
				if string(t.sender) == string(sn) && t.finished.Load() {
					exp = append(exp, t)
				}
			}
			sort.SliceStable(exp, func(i, j int) bool { return precedes(exp[i], exp[j]) })
			c.eval("addonly_list_is_sorted_set")
			same := len(exp) == len(l)
			for i := 0; same && i < len(l); i++ {
				same = bytes.Equal(l[i].TxHash, exp[i].hash)
			}
			if !same {
				p.failf("monitor", "add-only phase: sender %s holds %d transactions, the sorted set of its %d added transactions was expected (first difference matters: got %s)", sn, len(l), len(exp), firstHashes(l, 6))
			}
		}
	}
	if pl.addOnly {
		for _, t := range u.txs {
			if !t.finished.Load() {
				continue
			}
			c.eval("addonly_all_present")
			if !keySet[string(t.hash)] || !cache.Has(t.hash) || !listed[string(t.hash)] {
				p.failf("monitor", "add-only phase: added transaction %s is missing (reachable by hash: %v, in its sender's list: %v)", t.hash, keySet[string(t.hash)], listed[string(t.hash)])
			}
		}
		if cache.CountSenders() != uint64(len(u.senders)) {
			p.failf("monitor", "add-only phase: CountSenders=%d, %d senders added transactions", cache.CountSenders(), len(u.senders))
		}
	}
	if pl.indexesAgree {
		c.eval("quiescent_indexes_agree")
		for k := range keySet {
			if !listed[k] {
				p.failf("monitor", "quiescent (AddTx/RemoveTxByHash only, no eviction, limits not hit): hash %s is reachable by hash but in no sender list", k)
			}
		}
		for k := range listed {
			if !keySet[k] {
				p.failf("monitor", "quiescent (AddTx/RemoveTxByHash only, no eviction, limits not hit): hash %s is in a sender list but not reachable by hash", k)
			}
		}
	}
}

func countSenders(txs []*txcache.WrappedTransaction) int {
	m := map[string]bool{}
	for _, w := range txs {
		m[string(w.Tx.GetSndAddr())] = true
	}
	return len(m)
}

func firstHashes(l []*txcache.WrappedTransaction, n int) string {
	var sb strings.Builder
	for i := 0; i < len(l) && i < n; i++ {
		sb.WriteString(string(l[i].TxHash) + " ")
	}
	return sb.String()
}

// ---------------------------------------------------------------- the txcache phases

// add-only: no removal, no eviction, per-sender limits not hit
func phaseTxAddOnly(c *collector, rs int64, scale int) {
	rng := rand.New(rand.NewSource(rs ^ 0x11))
	runTxPlan(c, rs, scale, txPlan{name: "txcache-addonly", cfg: baseCfg(rng), nSenders: 6, perSender: 30, adders: 8, selectors: 2, readers: 3,
		readds: 2, delayWeight: 10, addOnly: true, quiescent: true, indexesAgree: true})
}

// adds + RemoveTxByHash: both whole operations are critical sections of mutTxOperation
func phaseTxMixed(c *collector, rs int64, scale int) {
	rng := rand.New(rand.NewSource(rs ^ 0x22))
	runTxPlan(c, rs, scale, txPlan{name: "txcache-mixed", cfg: baseCfg(rng), nSenders: 5, perSender: 24, adders: 6, removers: 3, selectors: 2, readers: 3,
		readds: 10, delayWeight: 24, quiescent: true, indexesAgree: true})
}

// per-sender limits hit: the bulk removal of the dropped hashes runs outside mutTxOperation
func phaseTxLimits(c *collector, rs int64, scale int) {
	rng := rand.New(rand.NewSource(rs ^ 0x33))
	cfg := baseCfg(rng)
	cfg.CountPerSenderThreshold = 5
	runTxPlan(c, rs, scale, txPlan{name: "txcache-limits", cfg: cfg, nSenders: 4, perSender: 30, uniform: true, adders: 6, removers: 2, selectors: 2, readers: 4,
		readds: 4, delayWeight: 24, quiescent: true, perSenderCountLimit: 5})
}

// eviction enabled with low thresholds: eviction runs outside mutTxOperation
func phaseTxEvict(c *collector, rs int64, scale int) {
	rng := rand.New(rand.NewSource(rs ^ 0x44))
	cfg := baseCfg(rng)
	cfg.EvictionEnabled = true
	cfg.CountThreshold = []uint32{20, 40, 60}[rng.Intn(3)]
	cfg.NumBytesThreshold = []uint32{2500, 6000, 1 << 28}[rng.Intn(3)]
	cfg.NumItemsToPreemptivelyEvict = []uint32{1, 3, 7}[rng.Intn(3)]
	runTxPlan(c, rs, scale, txPlan{name: "txcache-evict", cfg: cfg, nSenders: 8, perSender: 18, adders: 8, removers: 2, selectors: 2, readers: 3,
		readds: 6, delayWeight: 32, quiescent: true})
}

// everything plus Clear: safety and the selection monitors only
func phaseTxClear(c *collector, rs int64, scale int) {
	rng := rand.New(rand.NewSource(rs ^ 0x55))
	cfg := baseCfg(rng)
	cfg.EvictionEnabled = true
	cfg.CountThreshold = 50
	cfg.CountPerSenderThreshold = 12
	runTxPlan(c, rs, scale, txPlan{name: "txcache-clear", cfg: cfg, nSenders: 6, perSender: 20, uniform: true, adders: 6, removers: 2, clearers: 1, selectors: 2, readers: 3,
		readds: 3, delayWeight: 24})
}

// AddTx and Clear only (no removal, no eviction, limits not hit): both are critical sections of mutTxOperation over BOTH indexes, so at
// every instant with nothing in flight the set reachable by hash is the set listed under the senders (the counters are not compared:
// C14_quiescent_counters_with_clear_refuted is about them, not about the sets)
func phaseTxAddClear(c *collector, rs int64, scale int) {
	rng := rand.New(rand.NewSource(rs ^ 0x77))
	runTxPlan(c, rs, scale, txPlan{name: "txcache-add-clear", cfg: baseCfg(rng), nSenders: 6, perSender: 24, adders: 8, clearers: 3, selectors: 1, readers: 2,
		readds: 6, delayWeight: 24, indexesAgree: true})
}

// the logging / diagnosis paths (TRACE level into a discarding observer)
func phaseTxDiagnose(c *collector, rs int64, scale int) {
	rng := rand.New(rand.NewSource(rs ^ 0x66))
	cfg := baseCfg(rng)
	cfg.EvictionEnabled = true
	cfg.CountThreshold = 40
	runTxPlan(c, rs, scale, txPlan{name: "txcache-diagnose", cfg: cfg, nSenders: 4, perSender: 12, adders: 4, removers: 1, selectors: 1, readers: 2,
		readds: 2, delayWeight: 16, quiescent: true, trace: true})
}

// ---------------------------------------------------------------- a directed schedule (observation, not a C14 monitor)

// obsEvictReadd: eviction removes its batch from the sender lists, then — after the pause point
// "txcache.evict.betweenIndexes" — from the hash index. An AddTx of one of those transactions that
// completes inside that window (here: performed by the pause hook itself, i.e. a complete AddTx of
// "another goroutine" while the evicting one is paused between two statements) re-inserts it into both
// indexes; the resumed eviction then deletes it from the hash index only. C14's text claims the
// counters, not the agreement of the two indexes, under eviction: this is reported as an observation.
func obsEvictReadd(c *collector) {
	p := c.newPhase("obs-evict-readd", 0, 1)
	defer p.guard("obs-evict-readd")
	rng := p.rng()
	u := makeUniverse(rng, 2, 6, true)
	cfg := baseCfg(rng)
	cfg.EvictionEnabled = true
	cfg.CountThreshold = 4
	cfg.NumItemsToPreemptivelyEvict = 2
	cache, err := txcache.NewTxCache(cfg, u.hst)
	if err != nil {
		return
	}
	var added []*txSpec
	done := false
	var readded *txSpec
	txcache.VerifSetPauseHook(func(point string) {
		if point != "txcache.evict.betweenIndexes" || done {
			return
		}
		done = true
		for _, t := range added {
			if !cache.Has(t.hash) { // already gone from the hash index: a victim of this pass
				readded = t
				cache.AddTx(t.wrapped())
				return
			}
		}
	})
	defer uninstallHook()
	for _, t := range u.txs {
		cache.AddTx(t.wrapped())
		added = append(added, t)
		if done {
			break
		}
	}
	if readded == nil {
		c.add("obs_evict_readd_not_reached", 1)
		return
	}
	inList := false
	for _, w := range cache.GetTransactionsPoolForSender(string(readded.sender)) {
		if string(w.TxHash) == string(readded.hash) {
			inList = true
		}
	}
	byHash := cache.Has(readded.hash)
	keys := len(cache.Keys())
	if inList && !byHash {
		c.add("obs_evict_readd_divergence", 1)
		c.sample(fmt.Sprintf("observation (not a C14 claim): AddTx(%s) completing while an eviction is paused at txcache.evict.betweenIndexes leaves it in its sender's list but not reachable by hash (RemoveTxByHash(%s) = %v); CountTx=%d=|Keys|=%d still agree",
			readded.hash, readded.hash, cache.RemoveTxByHash(readded.hash), cache.CountTx(), keys))
	} else {
		c.add("obs_evict_readd_consistent", 1)
	}
	c.eval("quiescent_counters")
	if cache.CountTx() != uint64(keys) {
		p.failf("monitor", "directed schedule evict/re-add: CountTx=%d but %d hashes are reachable", cache.CountTx(), keys)
	}
}

// registerLate makes a transaction created after the phase's universe known to the host stub.
func registerLate(u *universe, t *txSpec) {
	u.hst.byHash[string(t.hash)] = t
	u.byHash[string(t.hash)] = t
}
