// Package scale: monitor-only checks at populations beyond 65 536 entries (C12, C13, C15, C17, C18, C20). Linear-time oracles
// written from the property texts (what a bounded FIFO / LRU / time cache / spilling adapter must hold after n insertions); the
// Coq models are not run at this scale (their association lists make that quadratic). A threshold, cap or batch boundary at 1 024,
// 4 096, 16 384 or 65 536 entries inside an eviction, sweep, purge or immunisation path shows here.
package scale

import (
	"bytes"
	"fmt"
	"math/rand"
	"time"

	logger "github.com/multiversx/mx-chain-logger-go"
	"github.com/multiversx/mx-chain-storage-go/fifocache"
	"github.com/multiversx/mx-chain-storage-go/immunitycache"
	"github.com/multiversx/mx-chain-storage-go/lrucache"
	"github.com/multiversx/mx-chain-storage-go/lrucache/capacity"
	"github.com/multiversx/mx-chain-storage-go/memorydb"
	"github.com/multiversx/mx-chain-storage-go/storageCacherAdapter"
	"github.com/multiversx/mx-chain-storage-go/timecache"
	"github.com/multiversx/mx-chain-storage-go/types"
	"verifharness/core"
)

type comp struct{}

func init() { core.Register(comp{}) }

func (comp) Name() string                                               { return "scale" }
func (comp) Gen(prop string, rng *rand.Rand, tier string) *core.History { return nil }

type out struct {
	res  *core.ExtraResult
	prop string
}

func (o *out) failf(format string, a ...interface{}) {
	if len(o.res.Fails) < 6 {
		msg := "scale: " + fmt.Sprintf(format, a...)
		o.res.Fails = append(o.res.Fails, core.Fail{Property: o.prop, Step: -1, Msg: msg})
		o.res.Replays = append(o.res.Replays, "harness extra -component scale -prop "+o.prop+"   # "+msg)
	}
}

func key(i int) []byte { return []byte(fmt.Sprintf("key-%07d", i)) }

const capN, putN = 66000, 70000

// ---------------------------------------------------------------- C15
func scaleLRU(o *out) {
	for kind := 0; kind < 2; kind++ {
		var c types.Cacher
		var err error
		name := "lrucache.NewCache"
		if kind == 0 {
			c, err = lrucache.NewCache(capN)
		} else {
			name = "lrucache.NewCacheWithSizeInBytes"
			c, err = lrucache.NewCacheWithSizeInBytes(capN, int64(capN)*10+5)
		}
		if err != nil {
			o.failf("%s: %v", name, err)
			continue
		}
		for i := 0; i < putN; i++ {
			ev := c.Put(key(i), []byte{byte(i)}, 10)
			if ev != (i >= capN) {
				o.failf("%s(capacity %d): Put #%d returned evicted=%v", name, capN, i, ev)
				break
			}
			o.res.Evaluations++
		}
		if c.Len() != capN {
			o.failf("%s: Len=%d after %d insertions into a cache of capacity %d", name, c.Len(), putN, capN)
		}
		if kind == 1 && c.SizeInBytesContained() != uint64(capN)*10 {
			o.failf("%s: SizeInBytesContained=%d, the %d residents weigh %d", name, c.SizeInBytesContained(), capN, capN*10)
		}
		for i := 0; i < putN; i += 13 {
			if c.Has(key(i)) != (i >= putN-capN) {
				o.failf("%s: Has(key #%d)=%v after %d insertions (capacity %d): residents must be exactly the last %d", name, i, c.Has(key(i)), putN, capN, capN)
				break
			}
		}
		ks := c.Keys()
		if len(ks) != capN || !bytes.Equal(ks[0], key(putN-capN)) || !bytes.Equal(ks[len(ks)-1], key(putN-1)) {
			o.failf("%s: Keys has %d entries from %s to %s, expected %d from %s to %s", name, len(ks), first(ks), last(ks), capN, key(putN-capN), key(putN-1))
		}
		// Get refreshes: the least recently used entry is then the next one
		c.Get(key(putN - capN))
		c.Put(key(putN), []byte{1}, 10)
		if !c.Has(key(putN-capN)) || c.Has(key(putN-capN+1)) {
			o.failf("%s: after Get(oldest) and one more Put the oldest must stay and the second oldest go: Has(oldest)=%v Has(second)=%v", name, c.Has(key(putN-capN)), c.Has(key(putN-capN+1)))
		}
		c.Clear()
		if c.Len() != 0 || c.SizeInBytesContained() != 0 {
			o.failf("%s: after Clear of %d entries Len=%d SizeInBytesContained=%d", name, capN, c.Len(), c.SizeInBytesContained())
		}
		for i := 0; i < 20; i++ {
			if c.Put(key(i), []byte{2}, 10) {
				o.failf("%s: Put #%d into the cleared cache reports an eviction", name, i)
			}
		}
		if c.Len() != 20 || (kind == 1 && c.SizeInBytesContained() != 200) {
			o.failf("%s: after Clear and 20 insertions Len=%d SizeInBytesContained=%d", name, c.Len(), c.SizeInBytesContained())
		}
		o.res.Counts["lru_rounds"]++
	}
}

func first(ks [][]byte) []byte {
	if len(ks) == 0 {
		return nil
	}
	return ks[0]
}
func last(ks [][]byte) []byte {
	if len(ks) == 0 {
		return nil
	}
	return ks[len(ks)-1]
}

// ---------------------------------------------------------------- C20
func scaleFIFO(o *out) {
	for _, N := range []int{1, 3} {
		c, err := fifocache.NewShardedCache(capN, N)
		if err != nil {
			o.failf("NewShardedCache(%d,%d): %v", capN, N, err)
			continue
		}
		guaranteed := (capN+N-1)/N - 2
		for i := 0; i < putN; i++ {
			c.Put(key(i), []byte{byte(i)}, 1)
			o.res.Evaluations++
			if i%997 == 0 {
				if !c.Has(key(i)) {
					o.failf("FIFO(%d,%d): the entry just inserted (#%d) is not present", capN, N, i)
					break
				}
				if c.Len() > capN {
					o.failf("FIFO(%d,%d): Len=%d exceeds the size after %d insertions", capN, N, c.Len(), i+1)
					break
				}
			}
		}
		for i := putN - guaranteed; i < putN; i += 7 {
			if !c.Has(key(i)) {
				o.failf("FIFO(%d,%d): key #%d was dropped although only %d insertions followed it (guaranteed %d)", capN, N, i, putN-1-i, guaranteed)
				break
			}
		}
		if N == 1 {
			// strictly in insertion order: the residents are a suffix
			seenPresent := false
			for i := 0; i < putN; i++ {
				h := c.Has(key(i))
				if seenPresent && !h {
					o.failf("FIFO(%d,1): key #%d is absent although an older key is still present: not in insertion order", capN, i)
					break
				}
				seenPresent = seenPresent || h
			}
		}
		if len(c.Keys()) != c.Len() {
			o.failf("FIFO(%d,%d): Keys lists %d entries, Len=%d", capN, N, len(c.Keys()), c.Len())
		}
		o.res.Counts["fifo_rounds"]++
	}
}

// ---------------------------------------------------------------- C12 / C13
func scaleImmunity(o *out) {
	const nImm, nOther = 66000, 3000
	c, err := immunitycache.NewImmunityCache(immunitycache.CacheConfig{Name: "verif", NumChunks: 1, MaxNumItems: nImm + nOther, MaxNumBytes: 1 << 30, NumItemsToPreemptivelyEvict: 4})
	if err != nil {
		o.failf("NewImmunityCache: %v", err)
		return
	}
	keys := make([][]byte, nImm)
	for i := range keys {
		keys[i] = key(i)
	}
	now, fut := c.ImmunizeKeys(keys)
	if now != 0 || fut != nImm {
		o.failf("ImmunizeKeys(%d absent keys) = (now %d, future %d)", nImm, now, fut)
	}
	for i := 0; i < nImm; i++ {
		if has, added := c.HasOrAdd(key(i), []byte{byte(i)}, 1); has || !added {
			o.failf("HasOrAdd(immune key #%d) = (has %v, added %v)", i, has, added)
			break
		}
	}
	for i := 0; i < nOther+500; i++ {
		k := key(nImm + i)
		has, added := c.HasOrAdd(k, []byte{0xee}, 1)
		o.res.Evaluations++
		if has || !added {
			o.failf("HasOrAdd(new key #%d behind %d immune items, %d residents) = (has %v, added %v): the oldest evictable item must make room", nImm+i, nImm, c.Count(), has, added)
			break
		}
		if c.Count() > nImm+nOther {
			o.failf("Count=%d exceeds MaxNumItems=%d", c.Count(), nImm+nOther)
			break
		}
	}
	for i := 0; i < nImm; i += 11 {
		if v, ok := c.Get(key(i)); !ok || !bytes.Equal(v.([]byte), []byte{byte(i)}) {
			o.failf("immunized item #%d (of %d immunized in one call) is gone or changed after evictions", i, nImm)
			break
		}
	}
	if !c.Has(key(nImm-1)) || !c.Has(key(511)) || !c.Has(key(65535)) {
		o.failf("immunized items #511 / #65535 / #%d: Has = %v %v %v", nImm-1, c.Has(key(511)), c.Has(key(65535)), c.Has(key(nImm-1)))
	}
	if c.CountImmune() != nImm {
		o.failf("CountImmune=%d, %d keys were accepted", c.CountImmune(), nImm)
	}
	o.res.Counts["immunity_rounds"]++
}

// ---------------------------------------------------------------- C18
func scaleTimeCache(o *out) {
	timecache.VerifSilenceLog()
	tc := timecache.NewTimeCache(time.Hour)
	for i := 0; i < putN; i++ {
		if err := tc.Add(string(key(i))); err != nil {
			o.failf("TimeCache.Add: %v", err)
			return
		}
	}
	tc.VerifCore().VerifShiftTimestamps(30 * time.Minute) // half the span later
	for _, i := range []int{0, 511, 512, 4095, 4096, 65535, 65536, putN - 1} {
		_ = tc.Upsert(string(key(i)), time.Hour) // refreshed: these must survive the sweep below
	}
	tc.Sweep()
	if tc.Len() != putN {
		o.failf("TimeCache: a sweep half a span after %d additions leaves %d keys", putN, tc.Len())
	}
	tc.VerifCore().VerifShiftTimestamps(45 * time.Minute) // 1 h 15 after the additions, 45 min after the refresh
	tc.Sweep()
	o.res.Evaluations += putN
	if tc.Len() != 8 {
		o.failf("TimeCache: one sweep after the span of %d keys elapsed (8 of them refreshed in between) leaves %d keys, expected 8", putN, tc.Len())
	}
	for _, i := range []int{0, 511, 512, 4095, 4096, 65535, 65536, putN - 1} {
		if !tc.Has(string(key(i))) {
			o.failf("TimeCache: refreshed key #%d was dropped %s after its upsert with span 1h", i, 45*time.Minute)
		}
	}
	o.res.Counts["timecache_rounds"]++
}

// ---------------------------------------------------------------- C17
type blob struct{ b []byte }

func (v *blob) GetSerialized() []byte  { return v.b }
func (v *blob) SetSerialized(b []byte) { v.b = append([]byte{}, b...) }
func (v *blob) IsInterfaceNil() bool   { return v == nil }

type blobFactory struct{}

func (blobFactory) CreateEmpty() interface{} { return &blob{} }
func (blobFactory) IsInterfaceNil() bool     { return false }

type noMarshal struct{}

func (noMarshal) Marshal(interface{}) ([]byte, error) { return nil, fmt.Errorf("not reached") }
func (noMarshal) Unmarshal(interface{}, []byte) error { return fmt.Errorf("not reached") }
func (noMarshal) IsInterfaceNil() bool                { return false }

func scaleAdapter(o *out) {
	lru, err := capacity.NewCapacityLRU(capN, int64(capN)*10+5)
	if err != nil {
		o.failf("NewCapacityLRU: %v", err)
		return
	}
	db := memorydb.New()
	ad, err := storageCacherAdapter.NewStorageCacherAdapter(lru, db, blobFactory{}, noMarshal{})
	if err != nil {
		o.failf("NewStorageCacherAdapter: %v", err)
		return
	}
	for i := 0; i < putN; i++ {
		spilled := ad.Put(key(i), &blob{b: []byte{1, byte(i)}}, 10)
		o.res.Evaluations++
		if spilled != (i >= capN) {
			o.failf("adapter.Put #%d (memory tier of %d) returned spilled=%v", i, capN, spilled)
			break
		}
	}
	for i := 0; i < putN; i += 7 {
		if !ad.Has(key(i)) {
			o.failf("adapter: key #%d of %d is in neither tier", i, putN)
			break
		}
		if v, ok := ad.Get(key(i)); !ok || !bytes.Equal(v.(*blob).b, []byte{1, byte(i)}) {
			o.failf("adapter: Get(key #%d) = (%v, %v)", i, v, ok)
			break
		}
	}
	o.res.Counts["adapter_rounds"]++
}

func (comp) Exhaustive(prop string, tier string, yield func(*core.History)) {}
func (comp) Run(h *core.History, scratch string) *core.Result               { return &core.Result{} }

func (comp) Extra(prop string, tier string, seed int64, scratch string) *core.ExtraResult {
	_ = logger.SetLogLevel("*:NONE")
	o := &out{res: &core.ExtraResult{Counts: map[string]int{}}, prop: prop}
	switch prop {
	case "C15":
		scaleLRU(o)
	case "C20":
		scaleFIFO(o)
	case "C12", "C13":
		scaleImmunity(o)
	case "C18":
		scaleTimeCache(o)
	case "C17":
		scaleAdapter(o)
	}
	o.res.Distinct = 1
	o.res.Rule = fmt.Sprintf("monitor only, linear-time oracles from the property text at populations beyond 65 536: %d insertions into structures of %d entries "+
		"(LRU caches: residents = the last %d, Keys order, byte counter, Clear; FIFO: bound, just-inserted, guaranteed residency, insertion order for one shard; immunity cache: %d keys "+
		"immunized in one call survive evictions, adds behind them succeed; time cache: one sweep drops %d expired keys and keeps the refreshed ones; adapter: nothing lost across the spill)", putN, capN, capN, 66000, putN-8)
	return o.res
}
