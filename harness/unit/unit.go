// Package unit drives storageUnit.NewStorageUnit(cacher, persister) (C16): every cacher the
// factory can build (LRU, size-bounded LRU, FIFO sharded) over a persister (memorydb, LevelDB,
// serial LevelDB) wrapped in a stub that fails Put/Remove/Get/Has/Close/Destroy on the schedule
// carried by each operation.
//
// Wire format (see coq/theories/Unit/UnitComp.v for the same table):
//
//	config  kind cap shards pkind maxbatch [ keys ]
//	op 1  via key value [ oracle ]     Put / PutInEpoch                 -> 5=error class
//	op 2  via cold key [ oracle ]      Get / GetFromEpoch / SearchFirst -> 1=value|-  [2=error class]
//	op 3  cold key [ oracle ]          Has                              -> 3=bool     [4=error class]
//	op 4  via key [ oracle ]           Remove / RemoveFromCurrentEpoch  -> 6=error class
//	op 5                               ClearCache
//	op 6  cold [ keys ] [ oracle ]     GetBulkFromEpoch                 -> [8=[ k v k v .. ]]
//	op 7                               RangeKeys                        -> [9=[ k v k v .. ] sorted by key] (memorydb only)
//	op 8  [ oracle ]                   DestroyUnit                      -> 10=error class 12=entries left in the cache
//	op 9  [ oracle ]                   Close                            -> 11=error class 12=entries left in the cache
//	every op                                                            -> 7=[ persister's value|- per key of the alphabet ]
//
// Only observables that do not depend on the cache's eviction policy are printed (the property
// does not constrain which entries a cache keeps): see the comment in UnitComp.v.
package unit

import (
	"bytes"
	"errors"
	"fmt"
	"math"
	"math/rand"
	"path/filepath"
	"sort"
	"sync/atomic"
	"time"

	logger "github.com/multiversx/mx-chain-logger-go"
	"github.com/multiversx/mx-chain-storage-go/common"
	"github.com/multiversx/mx-chain-storage-go/factory"
	"github.com/multiversx/mx-chain-storage-go/storageUnit"
	"github.com/multiversx/mx-chain-storage-go/types"
	"verifharness/core"
)

type comp struct{}

func init() {
	core.Register(comp{})
	// GetBulkFromEpoch logs a warning for every key it skips
	_ = logger.SetLogLevel("*:NONE")
}

func (comp) Name() string { return "unit" }

const prop = "C16"

// ---- the failing persister stub ----

var errInjected = errors.New("injected persister failure")

// failingPersister consumes one oracle bit per Put/Get/Has/Remove/Close/Destroy call, in call order; a true
// bit makes the call fail without reaching the wrapped persister. An exhausted oracle never fails.
var rangeReentryBroken atomic.Bool

type failingPersister struct {
	types.Persister
	bits      []bool
	fired     int // injected failures during the current operation
	firedGets int // ... of which Get calls for a key the persister holds
	calls     int // persister calls (Put/Get/Has/Remove/Close/Destroy) during the current operation
	closes    int // Close calls that reached the wrapped persister (whole history)
	destroys  int // Destroy calls that reached the wrapped persister (whole history)
}

func (p *failingPersister) arm(bits []bool) {
	p.bits, p.fired, p.firedGets, p.calls = bits, 0, 0, 0
}

func (p *failingPersister) next() bool {
	p.calls++
	if len(p.bits) == 0 {
		return false
	}
	b := p.bits[0]
	p.bits = p.bits[1:]
	if b {
		p.fired++
	}
	return b
}

func (p *failingPersister) Put(key, val []byte) error {
	if p.next() {
		return errInjected
	}
	return p.Persister.Put(key, val)
}

func (p *failingPersister) Get(key []byte) ([]byte, error) {
	if p.next() {
		if _, err := p.Persister.Get(key); err == nil {
			p.firedGets++
		}
		return nil, errInjected
	}
	return p.Persister.Get(key)
}

func (p *failingPersister) Has(key []byte) error {
	if p.next() {
		return errInjected
	}
	return p.Persister.Has(key)
}

func (p *failingPersister) Remove(key []byte) error {
	if p.next() {
		return errInjected
	}
	return p.Persister.Remove(key)
}

// Close / Destroy: a true bit makes the call fail without reaching the wrapped persister
func (p *failingPersister) Close() error {
	if p.next() {
		return errInjected
	}
	p.closes++
	return p.Persister.Close()
}

func (p *failingPersister) Destroy() error {
	if p.next() {
		return errInjected
	}
	p.destroys++
	return p.Persister.Destroy()
}

func (p *failingPersister) IsInterfaceNil() bool { return p == nil }

func errClass(err error) uint64 {
	switch {
	case err == nil:
		return 0
	case errors.Is(err, errInjected):
		return 2
	default:
		return 1
	}
}

// ---- alphabets ----

var allKeys = [][]byte{{0x61}, {0x62}, {0x61, 0x62}, {0x63}, {0x61, 0x00}}

func bigValue() []byte { return bytes.Repeat([]byte{0xAA}, 520) }

var smallValues = [][]byte{{0x01}, {0x02, 0x02}, {0x03}, {0x01, 0x00}, []byte("ab"), []byte("AB"), {0x80}, {0xff}} // incl. pairs differing only in case / in bytes >= 0x80

func oracleTok(bits []bool) string {
	t := make([]string, len(bits))
	for i, b := range bits {
		t[i] = core.Bool(b)
	}
	return core.L(t...)
}

func cacheTypeOf(kind int) common.CacheType {
	switch kind {
	case 0:
		return common.LRUCache
	case 1:
		return common.SizeLRUCache
	default:
		return common.FIFOShardedCache
	}
}

func dbTypeOf(pkind int) common.DBType {
	switch pkind {
	case 1:
		return common.LvlDB
	case 2:
		return common.LvlDBSerial
	default:
		return common.MemoryDB
	}
}

const sizedLRUBytes = 1024 // the factory's minimum for SizeLRU

func setConfig(h *core.History, kind, capacity, shards, pkind, maxBatch int, keys [][]byte) {
	h.SetConfig(core.N(uint64(kind)), core.N(uint64(capacity)), core.N(uint64(shards)), core.N(uint64(pkind)),
		core.N(uint64(maxBatch)), core.LB(keys))
}

// ---- generator ----

func (comp) Gen(p string, rng *rand.Rand, tier string) *core.History {
	h := &core.History{}
	kind := rng.Intn(3)
	capacity := core.Pick(rng, []int{1, 1, 2, 2, 2, 3})
	shards := 1
	if kind == 2 {
		shards = core.Pick(rng, []int{1, 1, 2})
	}
	pkind := core.Pick(rng, []int{0, 0, 0, 0, 0, 0, 0, 0, 0, 0, 0, 0, 0, 0, 0, 0, 1, 1, 2, 0})
	maxBatch := 1 + rng.Intn(capacity)
	nk := 3 + rng.Intn(3)
	keys := core.WithLongKeys(rng, allKeys[:nk], 12)
	nv := 2 + rng.Intn(3)
	values := make([][]byte, 0, nv)
	for _, j := range rng.Perm(len(smallValues))[:nv] {
		values = append(values, smallValues[j])
	}
	if kind == 1 && core.Chance(rng, 1, 2) {
		values[nv-1] = bigValue() // two of these exceed the byte capacity of the size-bounded LRU
	}
	if core.Chance(rng, 1, 4) {
		values[0] = []byte{} // a zero-length value is a legitimate value (C08: "empty values included")
	}
	setConfig(h, kind, capacity, shards, pkind, maxBatch, keys)

	failEvery := core.Pick(rng, []int{4, 6, 6, 8, 12, 1000})
	bit := func() bool { return core.Chance(rng, 1, failEvery) }
	nops := core.LongHistory(rng, 12+rng.Intn(19))
	// life-cycle operations (RangeKeys, DestroyUnit, Close) in 2 histories out of 5. A SUCCESSFUL Close /
	// DestroyUnit in the middle of a history only over memorydb (Close does nothing, Destroy leaves an
	// empty usable map; a closed LevelDB is C09's subject); over LevelDB they are made to fail (the stub
	// fails before reaching the persister), except a successful DestroyUnit as the very last operation.
	life := core.Chance(rng, 2, 5)
	for i := 0; i < nops; i++ {
		k := core.Pick(rng, keys)
		x := rng.Intn(100)
		if i < 2 {
			x = 0 // start with writes: reads of an empty unit are not interesting
		}
		if life && i >= 2 && core.Chance(rng, 1, 5) {
			y := rng.Intn(10)
			fail := core.Chance(rng, 1, 2)
			switch {
			case y < 4:
				h.Add(7, "RangeKeys")
			case y < 7:
				if pkind != 0 && i != nops-1 {
					fail = true
				}
				h.Add(8, fmt.Sprintf("DestroyUnit fail=%v", fail), oracleTok([]bool{fail}))
			default:
				if pkind != 0 {
					fail = true
				}
				h.Add(9, fmt.Sprintf("Close fail=%v", fail), oracleTok([]bool{fail}))
			}
			continue
		}
		switch {
		case x < 36:
			v := core.Pick(rng, values)
			via := core.Pick(rng, []int{0, 0, 0, 1})
			o := []bool{bit()}
			h.Add(1, fmt.Sprintf("Put(%x) fail=%v", k, o[0]), core.N(uint64(via)), core.B(k), core.B(v), oracleTok(o))
		case x < 60:
			via := core.Pick(rng, []int{0, 0, 0, 1, 2})
			o := []bool{bit()}
			cold := o[0] && core.Chance(rng, 1, 2) || core.Chance(rng, 1, 12)
			h.Add(2, fmt.Sprintf("Get(%x) fail=%v cold=%v", k, o[0], cold), core.N(uint64(via)), core.Bool(cold), core.B(k), oracleTok(o))
		case x < 68:
			o := []bool{bit()}
			cold := o[0] && core.Chance(rng, 1, 2) || core.Chance(rng, 1, 12)
			h.Add(3, fmt.Sprintf("Has(%x) fail=%v cold=%v", k, o[0], cold), core.Bool(cold), core.B(k), oracleTok(o))
		case x < 79:
			via := core.Pick(rng, []int{0, 0, 1})
			o := []bool{bit()}
			h.Add(4, fmt.Sprintf("Remove(%x) fail=%v", k, o[0]), core.N(uint64(via)), core.B(k), oracleTok(o))
		case x < 85:
			h.Add(5, "ClearCache")
		default:
			n := 1 + rng.Intn(4)
			var ks [][]byte
			if core.Chance(rng, 1, 2) {
				perm := rng.Perm(len(keys)) // distinct keys
				for j := 0; j < n && j < len(perm); j++ {
					ks = append(ks, keys[perm[j]])
				}
			} else {
				for j := 0; j < n; j++ {
					ks = append(ks, core.Pick(rng, keys))
				}
			}
			o := make([]bool, len(ks))
			any := false
			if core.Chance(rng, 1, 2) {
				for j := range o {
					o[j] = bit()
					any = any || o[j]
				}
			}
			cold := any && core.Chance(rng, 1, 2) || core.Chance(rng, 1, 12)
			h.Add(6, fmt.Sprintf("GetBulkFromEpoch cold=%v", cold), core.Bool(cold), core.LB(ks), oracleTok(o))
		}
	}
	return h
}

// ---- exhaustive small scope ----

type xop struct {
	code     int
	args     func(fail bool) []string
	persists bool // calls the persister for sure or possibly: a failure variant makes sense
}

func exhaustiveOps() []xop {
	k1, k2 := allKeys[0], allKeys[1]
	v1, v2 := smallValues[0], smallValues[1]
	o := func(f bool) string { return oracleTok([]bool{f}) }
	return []xop{
		{1, func(f bool) []string { return []string{core.N(0), core.B(k1), core.B(v1), o(f)} }, true},
		{1, func(f bool) []string { return []string{core.N(0), core.B(k1), core.B(v2), o(f)} }, true},
		{1, func(f bool) []string { return []string{core.N(0), core.B(k2), core.B(v1), o(f)} }, true},
		{2, func(f bool) []string { return []string{core.N(0), core.Bool(false), core.B(k1), o(f)} }, true},
		{2, func(f bool) []string { return []string{core.N(0), core.Bool(false), core.B(k2), o(f)} }, true},
		{3, func(f bool) []string { return []string{core.Bool(false), core.B(k1), o(f)} }, true},
		{4, func(f bool) []string { return []string{core.N(0), core.B(k1), o(f)} }, true},
		{5, func(f bool) []string { return nil }, false},
		{6, func(f bool) []string {
			return []string{core.Bool(false), core.LB([][]byte{k1, k2}), oracleTok([]bool{f, false})}
		}, true},
	}
}

// lifeOps: the alphabet of the second exhaustive family (life-cycle operations among a few data operations)
func lifeOps() []xop {
	k1, k2 := allKeys[0], allKeys[1]
	v1 := smallValues[0]
	o := func(f bool) string { return oracleTok([]bool{f}) }
	return []xop{
		{1, func(f bool) []string { return []string{core.N(0), core.B(k1), core.B(v1), o(f)} }, true},
		{1, func(f bool) []string { return []string{core.N(0), core.B(k2), core.B(v1), o(f)} }, true},
		{2, func(f bool) []string { return []string{core.N(0), core.Bool(false), core.B(k1), o(f)} }, true},
		{3, func(f bool) []string { return []string{core.Bool(false), core.B(k2), o(f)} }, true},
		{7, func(f bool) []string { return nil }, false},
		{8, func(f bool) []string { return []string{o(f)} }, true},
		{9, func(f bool) []string { return []string{o(f)} }, true},
	}
}

// Exhaustive: every sequence of at most L of the nine operations above on two keys, with no
// failure or with exactly one failing operation at every position, for each cacher kind
// (LRU capacity 1, size-bounded LRU capacity 1, FIFO sharded capacity 2); plus every sequence of
// exactly L+1 operations for the plain LRU of capacity 1. L = 3 (quick) / 4 (thorough).
// Second family: the same enumeration (lengths <= L, all three cacher kinds, cache capacity 2 for the
// LRUs so that both keys can be cached when DestroyUnit / Close arrive) over the seven operations of
// lifeOps (Put k1, Put k2, Get k1, Has k2, RangeKeys, DestroyUnit, Close).
func (comp) Exhaustive(p string, tier string, yield func(*core.History)) {
	maxLen := 3
	if tier == "thorough" {
		maxLen = 4
	}
	exhaustiveOver(exhaustiveOps(), [][3]int{{0, 1, 1}, {1, 1, 1}, {2, 2, 1}}, maxLen, true, yield)
	exhaustiveOver(lifeOps(), [][3]int{{0, 2, 1}, {1, 2, 1}, {2, 3, 1}}, maxLen, false, yield)
}

func exhaustiveOver(ops []xop, allKinds [][3]int, maxLen int, longer bool, yield func(*core.History)) {
	keys := allKeys[:2]
	emit := func(seq []int, kinds [][3]int) {
		for failAt := -1; failAt < len(seq); failAt++ {
			if failAt >= 0 && !ops[seq[failAt]].persists {
				continue
			}
			for _, kc := range kinds {
				h := &core.History{}
				setConfig(h, kc[0], kc[1], kc[2], 0, 1, keys)
				for i, oi := range seq {
					h.Add(ops[oi].code, "", ops[oi].args(i == failAt)...)
				}
				yield(h)
			}
		}
	}
	// allKinds: kind, capacity, shards
	var rec func(seq []int)
	rec = func(seq []int) {
		if len(seq) > 0 && len(seq) <= maxLen {
			emit(seq, allKinds)
		}
		if len(seq) == maxLen && !longer {
			return
		}
		if len(seq) == maxLen+1 {
			emit(seq, allKinds[:1])
			return
		}
		for i := range ops {
			rec(append(seq[:len(seq):len(seq)], i))
		}
	}
	rec(nil)
}

// ---- running a history on the real code ----

type env struct {
	u      *storageUnit.Unit
	cacher types.Cacher
	stub   *failingPersister
	inner  types.Persister
	keys   [][]byte
	ref    map[string][]byte // the map of acknowledged writes (monitor side)
}

func build(cfg []core.Arg, scratch string) (*env, error) {
	kind, capacity, shards, pkind, maxBatch := cfg[0].Int(), cfg[1].Int(), cfg[2].Int(), cfg[3].Int(), cfg[4].Int()
	cc := common.CacheConfig{Name: "verif", Type: cacheTypeOf(kind), Capacity: uint32(capacity), Shards: uint32(shards)}
	if kind == 1 {
		cc.SizeInBytes = sizedLRUBytes
	}
	cacher, err := factory.NewCache(cc)
	if err != nil {
		return nil, err
	}
	inner, err := factory.NewDB(factory.ArgDB{DBType: dbTypeOf(pkind), Path: filepath.Join(scratch, "db"),
		BatchDelaySeconds: 3600, MaxBatchSize: maxBatch, MaxOpenFiles: 10})
	if err != nil {
		return nil, err
	}
	stub := &failingPersister{Persister: inner}
	u, err := storageUnit.NewStorageUnit(cacher, stub)
	if err != nil {
		return nil, err
	}
	e := &env{u: u, cacher: cacher, stub: stub, inner: inner, ref: map[string][]byte{}}
	for _, a := range cfg[5].List {
		e.keys = append(e.keys, a.Bytes())
	}
	return e, nil
}

func oracleOf(a core.Arg) []bool {
	out := make([]bool, len(a.List))
	for i, b := range a.List {
		out[i] = b.Bool()
	}
	return out
}

// persisterRead is a direct read of the wrapped persister (no oracle bit consumed).
func (e *env) persisterRead(k []byte) []byte {
	v, err := e.inner.Get(k)
	if err != nil {
		return nil
	}
	if v == nil {
		v = []byte{}
	}
	return v
}

func (e *env) cacheSnapshot() map[string][]byte {
	m := map[string][]byte{}
	for _, k := range e.keys {
		if v, ok := e.cacher.Peek(k); ok {
			b, _ := v.([]byte)
			m[string(k)] = b
		}
	}
	return m
}

func distinct(ks [][]byte) bool {
	seen := map[string]bool{}
	for _, k := range ks {
		if seen[string(k)] {
			return false
		}
		seen[string(k)] = true
	}
	return true
}

// collect runs a RangeKeys with a handler that keeps every pair and always asks for more; sorted by key
func collect(rangeKeys func(func(k, v []byte) bool)) [][2][]byte {
	var out [][2][]byte
	rangeKeys(func(k, v []byte) bool {
		out = append(out, [2][]byte{append([]byte{}, k...), append([]byte{}, v...)})
		return true
	})
	sortPairs(out)
	return out
}

func sortPairs(p [][2][]byte) {
	sort.SliceStable(p, func(x, y int) bool { return bytes.Compare(p[x][0], p[y][0]) < 0 })
}

func samePairs(x, y [][2][]byte) bool {
	if len(x) != len(y) {
		return false
	}
	for i := range x {
		if !bytes.Equal(x[i][0], y[i][0]) || !bytes.Equal(x[i][1], y[i][1]) {
			return false
		}
	}
	return true
}

func pairToks(p [][2][]byte) []string {
	t := make([]string, 0, 2*len(p))
	for _, kv := range p {
		t = append(t, core.B(kv[0]), core.B(kv[1]))
	}
	return t
}

func (comp) Run(h *core.History, scratch string) *core.Result {
	res := &core.Result{}
	e, err := build(core.ParseArgs(h.Config), scratch)
	if err != nil {
		res.AddObs("!build " + err.Error())
		res.Failf("*", -1, "cannot build the unit: %v", err)
		return res
	}
	defer func() { _ = e.inner.Close() }()
	if pk := core.ParseArgs(h.Config)[3].Int(); pk != 0 {
		res.Hit("leveldb-persister")
	}

	for i, op := range h.Ops {
		res.Scribble() // the key buffers handed to the previous call are reused by their caller
		a := op.Parsed()
		var obs []string
		before := e.cacheSnapshot()
		coldOp := false
		var putKey []byte
		switch op.Code {
		case 1: // Put
			via, k, v, o := a[0].Int(), a[1].Bytes(), a[2].Bytes(), oracleOf(a[3])
			old, hadOld := e.ref[string(k)]
			putKey = k
			e.stub.arm(o)
			var err error
			if via == 0 {
				err = e.u.Put(res.CallerKey(k), v)
			} else {
				err = e.u.PutInEpoch(k, v, 7)
			}
			obs = append(obs, core.Lbl(5, core.N(errClass(err))))
			// monitor: the error is returned exactly when the persister rejected the write
			if (err != nil) != (e.stub.fired > 0) || (err != nil && errClass(err) != 2) {
				res.Failf(prop, i, "Put(%x): persister rejected=%v but the unit returned %v", k, e.stub.fired > 0, err)
			}
			if err == nil {
				if hadOld && !bytes.Equal(old, v) {
					res.Hit("overwrite")
				}
				e.ref[string(k)] = v
			} else {
				res.Hit("failed-put")
				if _, cached := before[string(k)]; cached {
					res.Hit("failed-put-over-cached-value")
				}
				// monitor: the rejected value is not held by either layer (unless it is the acknowledged one)
				if cv, ok := e.cacher.Peek(k); ok {
					if b, _ := cv.([]byte); !hadOld || !bytes.Equal(b, old) {
						res.Failf(prop, i, "rejected Put(%x,%x): the cache holds %x afterwards, acknowledged value is %x (present=%v)", k, v, b, old, hadOld)
					}
				}
				pv := e.persisterRead(k)
				if hadOld != (pv != nil) || (hadOld && !bytes.Equal(pv, old)) {
					res.Failf(prop, i, "rejected Put(%x,%x): the persister holds %x afterwards, acknowledged value is %x (present=%v)", k, v, pv, old, hadOld)
				}
			}
		case 2: // Get
			via, cold, k, o := a[0].Int(), a[1].Bool(), a[2].Bytes(), oracleOf(a[3])
			coldOp = cold
			if cold {
				e.u.ClearCache()
			}
			_, cachedBefore := e.cacheSnapshot()[string(k)]
			e.stub.arm(o)
			var v []byte
			var err error
			switch via {
			case 0:
				v, err = e.u.Get(k)
			case 1:
				v, err = e.u.GetFromEpoch(k, 7)
			default:
				v, err = e.u.SearchFirst(k)
			}
			cls := errClass(err)
			served := v
			if err == nil && served == nil {
				served = []byte{}
			}
			if cls == 2 {
				served = e.persisterRead(k) // policy-independent form of an injected read failure
				res.Hit("failed-get")
			}
			obs = append(obs, core.Lbl(1, core.OB(served)))
			if cold || len(o) == 0 || !o[0] {
				obs = append(obs, core.Lbl(2, core.N(cls)))
			}
			// monitor: Get answers like the map of acknowledged writes
			want, present := e.ref[string(k)]
			switch cls {
			case 0:
				if !present || !bytes.Equal(want, v) {
					res.Failf(prop, i, "Get(%x) = %x, the acknowledged writes give %x (present=%v)", k, v, want, present)
				}
				if cachedBefore {
					res.Hit("cache-hit")
				} else {
					res.Hit("cache-miss-read-through")
					if _, ok := e.cacher.Peek(k); ok {
						res.Hit("cache-miss-refill")
					}
				}
			case 1:
				if present {
					res.Failf(prop, i, "Get(%x) = not found, the acknowledged writes give %x", k, want)
				}
				res.Hit("get-not-found")
			case 2:
				if e.stub.fired == 0 {
					res.Failf(prop, i, "Get(%x) returned the injected error but no failure was injected", k)
				}
			}
		case 3: // Has
			cold, k, o := a[0].Bool(), a[1].Bytes(), oracleOf(a[2])
			coldOp = cold
			if cold {
				e.u.ClearCache()
			}
			e.stub.arm(o)
			err := e.u.Has(k)
			cls := errClass(err)
			has := cls == 0
			if cls == 2 {
				has = e.inner.Has(k) == nil
				res.Hit("failed-has")
			}
			obs = append(obs, core.Lbl(3, core.Bool(has)))
			if cold || len(o) == 0 || !o[0] {
				obs = append(obs, core.Lbl(4, core.N(cls)))
			}
			_, present := e.ref[string(k)]
			if (cls == 0 && !present) || (cls == 1 && present) || (cls == 2 && e.stub.fired == 0) {
				res.Failf(prop, i, "Has(%x) = class %d, the acknowledged writes have present=%v", k, cls, present)
			}
			if cls == 0 {
				res.Hit("has-present")
			}
		case 4: // Remove
			via, k, o := a[0].Int(), a[1].Bytes(), oracleOf(a[2])
			_, present := e.ref[string(k)]
			e.stub.arm(o)
			var err error
			if via == 0 {
				err = e.u.Remove(res.CallerKey(k))
			} else {
				err = e.u.RemoveFromCurrentEpoch(k)
			}
			obs = append(obs, core.Lbl(6, core.N(errClass(err))))
			if (err != nil) != (e.stub.fired > 0) || (err != nil && errClass(err) != 2) {
				res.Failf(prop, i, "Remove(%x): persister rejected=%v but the unit returned %v", k, e.stub.fired > 0, err)
			}
			if err == nil {
				delete(e.ref, string(k))
				if present {
					res.Hit("remove-present")
				}
				// monitor: Remove removes the key from both layers
				if _, ok := e.cacher.Peek(k); ok || e.cacher.Has(k) {
					res.Failf(prop, i, "Remove(%x) acknowledged but the cache still holds the key", k)
				}
				if e.persisterRead(k) != nil || e.inner.Has(k) == nil {
					res.Failf(prop, i, "Remove(%x) acknowledged but the persister still holds the key", k)
				}
			} else {
				res.Hit("failed-remove")
				if _, cached := before[string(k)]; cached && present {
					res.Hit("failed-remove-of-cached-key")
				}
			}
		case 5:
			if len(before) > 0 {
				res.Hit("clear-cache")
			}
			e.u.ClearCache()
			if e.cacher.Len() != 0 {
				res.Failf(prop, i, "ClearCache left %d entries in the cache", e.cacher.Len())
			}
		case 7: // RangeKeys
			got := collect(func(hd func(k, v []byte) bool) { e.u.RangeKeys(hd) })
			direct := collect(func(hd func(k, v []byte) bool) { e.inner.RangeKeys(hd) })
			pk := core.ParseArgs(h.Config)[3].Int()
			if pk == 0 {
				obs = append(obs, core.Lbl(9, core.L(pairToks(got)...)))
			}
			// monitor: RangeKeys visits exactly the persister's pairs, regardless of the cache content ...
			if !samePairs(got, direct) {
				res.Failf(prop, i, "RangeKeys visited %d pairs %v, the persister's own RangeKeys visits %d pairs %v", len(got), pairToks(got), len(direct), pairToks(direct))
			}
			// ... which, everything being written through (memorydb), is the map of acknowledged writes
			if pk == 0 {
				var want [][2][]byte
				for k, v := range e.ref {
					want = append(want, [2][]byte{[]byte(k), v})
				}
				sortPairs(want)
				if !samePairs(got, want) {
					res.Failf(prop, i, "RangeKeys visited %v, the acknowledged writes are %v", pairToks(got), pairToks(want))
				}
			}
			// a handler that calls back into the unit for every pair it is shown (cross-checking it with Get, as a pruning or
			// re-indexing pass does): the iteration and the inner calls must both come back, with the pair's own value
			if !rangeReentryBroken.Load() {
				e.stub.arm(nil)
				finished := make(chan string, 1)
				go func() {
					bad := ""
					e.u.RangeKeys(func(k, v []byte) bool {
						kk, vv := append([]byte{}, k...), append([]byte{}, v...)
						// (the values are compared over memorydb only: a LevelDB persister shows its FLUSHED pairs, Get the latest acknowledged one)
						if got, err := e.u.Get(kk); pk == 0 && (err != nil || !bytes.Equal(got, vv)) {
							bad = fmt.Sprintf("inside the RangeKeys handler Get(%x) = (%x, %v), the handler was shown the value %x", kk, got, err, vv)
						}
						return true
					})
					finished <- bad
				}()
				select {
				case bad := <-finished:
					if bad != "" {
						res.Failf(prop, i, "%s", bad)
					}
				case <-time.After(4 * time.Second):
					rangeReentryBroken.Store(true) // not tried again in this run of the binary: every further history would wait for the watchdog
					res.Failf(prop, i, "RangeKeys with a handler that calls Get on the same unit did not return within 4 s (the handler runs while the unit is locked)")
					res.AddObs(obs...)
					return res
				}
			}
			res.Hit("range-keys")
			if len(got) > len(before) {
				res.Hit("range-keys-more-than-cached")
			}
		case 8, 9: // DestroyUnit, Close
			o := oracleOf(a[0])
			e.stub.arm(o)
			reached := e.stub.destroys + e.stub.closes
			var err error
			name := "DestroyUnit"
			if op.Code == 8 {
				err = e.u.DestroyUnit()
				obs = append(obs, core.Lbl(10, core.N(errClass(err))))
			} else {
				name = "Close"
				err = e.u.Close()
				obs = append(obs, core.Lbl(11, core.N(errClass(err))))
			}
			obs = append(obs, core.Lbl(12, core.N(uint64(e.cacher.Len()))))
			// monitor: the persister's error is returned, and only it
			if (err != nil) != (e.stub.fired > 0) || (err != nil && errClass(err) != 2) {
				res.Failf(prop, i, "%s: persister failed=%v but the unit returned %v", name, e.stub.fired > 0, err)
			}
			if e.stub.calls != 1 || (err == nil && e.stub.destroys+e.stub.closes != reached+1) {
				res.Failf(prop, i, "%s made %d persister calls, %d of them reaching the persister's %s", name, e.stub.calls, e.stub.destroys+e.stub.closes-reached, name)
			}
			// monitor: the cache is cleared in every case - "Close clears the cache even when the persister's
			// Close fails", "after DestroyUnit the unit's cache is empty"
			if n := e.cacher.Len(); n != 0 || len(e.cacheSnapshot()) != 0 {
				res.Failf(prop, i, "%s (error %v) left %d entries in the cache (%d keys of the alphabet still cached)", name, err, n, len(e.cacheSnapshot()))
			}
			if len(before) > 0 {
				res.Hit(name + "-clears-nonempty-cache")
			}
			if err != nil {
				res.Hit("failed-" + name)
				if len(before) > 0 {
					res.Hit("failed-" + name + "-still-clears-cache")
				}
			} else if op.Code == 8 {
				// monitor: "... and the persister empty (Get/Has of every key: not found)"
				if len(e.ref) > 0 {
					res.Hit("destroy-nonempty-unit")
				}
				e.ref = map[string][]byte{}
				if core.ParseArgs(h.Config)[3].Int() == 0 {
					if direct := collect(func(hd func(k, v []byte) bool) { e.inner.RangeKeys(hd) }); len(direct) != 0 {
						res.Failf(prop, i, "DestroyUnit acknowledged but the persister still holds %v", pairToks(direct))
					}
					for _, k := range e.keys {
						e.stub.arm(nil)
						if v, gerr := e.u.Get(k); gerr == nil {
							res.Failf(prop, i, "after DestroyUnit Get(%x) = %x", k, v)
						}
						if e.u.Has(k) == nil {
							res.Failf(prop, i, "after DestroyUnit Has(%x) = nil", k)
						}
					}
				}
			} else {
				res.Hit("close-ok")
			}
		case 6: // GetBulkFromEpoch
			cold, o := a[0].Bool(), oracleOf(a[2])
			var ks [][]byte
			for _, x := range a[1].List {
				ks = append(ks, x.Bytes())
			}
			coldOp = cold
			if cold {
				e.u.ClearCache()
			}
			e.stub.arm(o)
			pairs, err := e.u.GetBulkFromEpoch(ks, 7)
			if err != nil {
				res.Failf(prop, i, "GetBulkFromEpoch returned an error: %v", err)
			}
			noFail := true
			for j := 0; j < len(ks) && j < len(o); j++ {
				noFail = noFail && !o[j]
			}
			if noFail || (cold && distinct(ks)) {
				toks := make([]string, 0, 2*len(pairs))
				for _, p := range pairs {
					toks = append(toks, core.B(p.Key), core.B(p.Value))
				}
				obs = append(obs, core.Lbl(8, core.L(toks...)))
			}
			// monitor: exactly the found pairs, in request order; a pair is missing only for a read
			// that the stub made fail (the stub counts the failed reads of keys it holds)
			var found [][2][]byte
			for _, k := range ks {
				if v, ok := e.ref[string(k)]; ok {
					found = append(found, [2][]byte{k, v})
				}
			}
			j := 0
			for _, p := range pairs {
				for j < len(found) && !(bytes.Equal(found[j][0], p.Key) && bytes.Equal(found[j][1], p.Value)) {
					j++
				}
				if j == len(found) {
					res.Failf(prop, i, "GetBulkFromEpoch returned (%x,%x): not among the found pairs in request order", p.Key, p.Value)
					break
				}
				j++
			}
			if len(found)-len(pairs) != e.stub.firedGets {
				res.Failf(prop, i, "GetBulkFromEpoch returned %d pairs, %d keys are present, %d reads of present keys were made to fail",
					len(pairs), len(found), e.stub.firedGets)
			}
			if e.stub.firedGets > 0 {
				res.Hit("bulk-swallowed-read-error")
			}
			if len(found) > 0 && len(found) < len(ks) {
				res.Hit("bulk-partial")
			}
		}

		// direct reads of the persister for the alphabet; coherence monitor
		after := e.cacheSnapshot()
		toks := make([]string, len(e.keys))
		for j, k := range e.keys {
			pv := e.persisterRead(k)
			toks[j] = core.OB(pv)
			if cv, ok := after[string(k)]; ok {
				if pv == nil || !bytes.Equal(cv, pv) {
					res.Failf(prop, i, "incoherent: the cache holds %x -> %x, the persister holds %x (present=%v)", k, cv, pv, pv != nil)
				}
			}
			// the persister itself is the map of acknowledged writes
			want, present := e.ref[string(k)]
			if present != (pv != nil) || (present && !bytes.Equal(want, pv)) {
				res.Failf(prop, i, "persister holds %x -> %x (present=%v), acknowledged writes give %x (present=%v)", k, pv, pv != nil, want, present)
			}
		}
		obs = append(obs, core.Lbl(7, core.L(toks...)))
		if (op.Code == 1 || op.Code == 2 || op.Code == 6) && !coldOp {
			for k := range before {
				if _, still := after[k]; !still && k != string(putKey) {
					res.Hit("eviction")
				}
			}
		}
		res.AddObs(obs...)
	}
	return res
}

// ---- extra: the factory guard ----

// Extra checks the decision rule of factory.NewStorageUnitFromConf on a grid:
// refused with ErrCacheSizeIsLowerThanBatchSize exactly when MaxBatchSize > Capacity.
func (comp) Extra(p string, tier string, seed int64, scratch string) *core.ExtraResult {
	res := &core.ExtraResult{Counts: map[string]int{}, Exhaustive: true}
	res.Rule = "factory.NewStorageUnitFromConf on the grid capacity 0..6 x MaxBatchSize -2..8 x {LRU, SizeLRU, FIFOSharded} x {MemoryDB, LvlDB, LvlDBSerial}, plus 14 refused cases at the edge of int / uint32 (MaxBatchSize 2^31 .. MaxInt64, Capacity up to MaxUint32): " +
		"the error is ErrCacheSizeIsLowerThanBatchSize exactly when MaxBatchSize > Capacity (Coq: factory_refuses); when it is not refused " +
		"and the cache configuration is valid, a working unit is returned. Plus rounds in which the caller keeps ONE buffer per key, rewrites it in place and Puts it again (the " +
		"cache holds the caller's slice by reference, so a Put that compares the new value with the cached one compares the buffer with itself): after ClearCache every key reads the bytes of its last acknowledged Put"
	n := 0
	for kind := 0; kind < 3; kind++ {
		for pkind := 0; pkind < 3; pkind++ {
			for capacity := 0; capacity <= 6; capacity++ {
				for mb := -2; mb <= 8; mb++ {
					if pkind != 0 && (capacity%3 != 1 || (mb != capacity && mb != capacity+1 && mb != 1)) {
						continue // a few LevelDB cases only (they create files)
					}
					cc := common.CacheConfig{Name: "verif", Type: cacheTypeOf(kind), Capacity: uint32(capacity), Shards: 1}
					if kind == 1 {
						cc.SizeInBytes = sizedLRUBytes
					}
					dc := common.DBConfig{FilePath: filepath.Join(scratch, fmt.Sprintf("x-%d-%d-%d-%d", kind, pkind, capacity, mb+2)),
						Type: dbTypeOf(pkind), BatchDelaySeconds: 3600, MaxBatchSize: mb, MaxOpenFiles: 10}
					u, err := factory.NewStorageUnitFromConf(cc, dc)
					n++
					refused := errors.Is(err, common.ErrCacheSizeIsLowerThanBatchSize)
					want := mb > capacity
					desc := fmt.Sprintf("cache=%s capacity=%d db=%s MaxBatchSize=%d", cc.Type, capacity, dc.Type, mb)
					if refused != want {
						res.Fails = append(res.Fails, core.Fail{Property: prop, Step: -1,
							Msg: fmt.Sprintf("factory guard: %s: refused=%v (err=%v), rule MaxBatchSize > Capacity says %v", desc, refused, err, want)})
					}
					if want {
						res.Counts["refused"]++
						if u != nil {
							res.Fails = append(res.Fails, core.Fail{Property: prop, Step: -1, Msg: "factory guard: a unit was returned together with the refusal: " + desc})
						}
						continue
					}
					if err != nil {
						res.Counts["other-error"]++ // e.g. capacity 0 is refused by the cache constructors
						continue
					}
					res.Counts["built"]++
					if e1 := u.Put([]byte("k"), []byte("v")); e1 != nil {
						res.Fails = append(res.Fails, core.Fail{Property: prop, Step: -1, Msg: "factory: the built unit cannot Put: " + desc})
					}
					if v, e2 := u.Get([]byte("k")); e2 != nil || string(v) != "v" {
						res.Fails = append(res.Fails, core.Fail{Property: prop, Step: -1, Msg: "factory: the built unit does not return the written value: " + desc})
					}
					_ = u.Close()
				}
			}
		}
	}
	// the same rule at the edge of the integer types involved (MaxBatchSize is an int, Capacity a uint32): only cases the rule refuses,
	// so that no cache of billions of entries is ever built
	for kind := 0; kind < 3; kind++ {
		for _, e := range []struct {
			capacity uint32
			mb       int
		}{{10, 1 << 31}, {10, 1<<32 - 1}, {10, 1 << 32}, {10, 1<<32 + 1}, {10, 1<<32 + 10}, {10, 3<<32 + 7}, {10, 1 << 40}, {10, math.MaxInt64},
			{0, 1 << 32}, {1, 1<<32 + 1}, {math.MaxUint32, 1 << 32}, {math.MaxUint32, 1<<32 + 5}, {1 << 31, 1<<31 + 1}, {1<<31 - 1, 1 << 31}} {
			cc := common.CacheConfig{Name: "verif", Type: cacheTypeOf(kind), Capacity: e.capacity, Shards: 1}
			if kind == 1 {
				cc.SizeInBytes = sizedLRUBytes
			}
			dc := common.DBConfig{FilePath: filepath.Join(scratch, "edge"), Type: dbTypeOf(0), BatchDelaySeconds: 3600, MaxBatchSize: e.mb, MaxOpenFiles: 10}
			u, err := factory.NewStorageUnitFromConf(cc, dc)
			n++
			res.Counts["edge-refused"]++
			if !errors.Is(err, common.ErrCacheSizeIsLowerThanBatchSize) || u != nil {
				res.Fails = append(res.Fails, core.Fail{Property: prop, Step: -1,
					Msg: fmt.Sprintf("factory guard: cache=%s capacity=%d MaxBatchSize=%d: not refused (err=%v), rule MaxBatchSize > Capacity says refused", cc.Type, e.capacity, e.mb, err)})
				if u != nil {
					_ = u.Close()
				}
			}
		}
	}
	n += reusedUnitBuffer(res, prop, tier, seed, scratch)
	n += longValues(res, prop, scratch)
	res.Evaluations, res.Distinct = n, n
	res.Samples = []string{"LRU capacity=2 MaxBatchSize=3 -> refused", "LRU capacity=2 MaxBatchSize=2 -> built", "FIFOSharded capacity=1 MaxBatchSize=-1 -> built"}
	for i := range res.Fails {
		res.Replays = append(res.Replays, res.Fails[i].Msg)
	}
	return res
}

// reusedUnitBuffer: a caller that keeps one buffer per key, rewrites it in place and calls Put(key, buffer) again. Between the rewrite
// and the Put nothing is read (the unit caches the caller's slice by reference: C16's domain excludes reading in that window), so on a
// correct unit every Put writes through and, once the cache is cleared, Get returns the bytes of the last acknowledged Put.
func reusedUnitBuffer(res *core.ExtraResult, prop, tier string, seed int64, scratch string) int {
	rounds := 12
	if tier == "thorough" {
		rounds = 120
	}
	rng := rand.New(rand.NewSource(seed*15485863 + 11))
	n := 0
	for r := 0; r < rounds && len(res.Fails) == 0; r++ {
		kind := r % 3
		cc := common.CacheConfig{Name: "verif", Type: cacheTypeOf(kind), Capacity: 8, Shards: 1}
		if kind == 1 {
			cc.SizeInBytes = sizedLRUBytes
		}
		dc := common.DBConfig{FilePath: filepath.Join(scratch, fmt.Sprintf("reuse-%d", r)), Type: dbTypeOf(1 + r%2), BatchDelaySeconds: 3600, MaxBatchSize: 1 + rng.Intn(4), MaxOpenFiles: 10}
		u, err := factory.NewStorageUnitFromConf(cc, dc)
		if err != nil {
			continue
		}
		bufs := map[string][]byte{}
		want := map[string][]byte{}
		for i := 0; i < 30; i++ {
			k := fmt.Sprintf("k%d", rng.Intn(4))
			b, ok := bufs[k]
			if !ok {
				b = make([]byte, 8)
				bufs[k] = b
			}
			for j := range b {
				b[j] = byte(rng.Intn(256)) // rewritten in place: same slice, new content
			}
			if u.Put([]byte(k), b) == nil {
				want[k] = append([]byte{}, b...)
			}
			n++
		}
		u.ClearCache()
		for k, wv := range want {
			v, gerr := u.Get([]byte(k))
			if gerr != nil || !bytes.Equal(v, wv) {
				msg := fmt.Sprintf("reused-buffer round %d (cache=%s db=%s): after ClearCache key %s reads %x (err %v), its last acknowledged Put carried %x (a Put of a rewritten buffer did not reach the persister)",
					r, cc.Type, dc.Type, k, v, gerr, wv)
				res.Fails = append(res.Fails, core.Fail{Property: prop, Step: -1, Msg: msg})
			}
		}
		_ = u.Close()
		res.Counts["reused-buffer-rounds"]++
	}
	return n
}

// longValues: values around and beyond 64 KiB (the generated histories stay below a kilobyte): an acknowledged overwrite of a cached
// key with a long value must be what Get returns next, from the cache or not; after ClearCache too.
func longValues(res *core.ExtraResult, prop string, scratch string) int {
	n := 0
	for kind := 0; kind < 3; kind++ {
		for pk := 0; pk < 2; pk++ {
			cc := common.CacheConfig{Name: "verif", Type: cacheTypeOf(kind), Capacity: 8, Shards: 1}
			if kind == 1 {
				cc.SizeInBytes = 1 << 22
			}
			dc := common.DBConfig{FilePath: filepath.Join(scratch, fmt.Sprintf("long-%d-%d", kind, pk)), Type: dbTypeOf(pk * 2), BatchDelaySeconds: 3600, MaxBatchSize: 2, MaxOpenFiles: 10}
			u, err := factory.NewStorageUnitFromConf(cc, dc)
			if err != nil {
				continue
			}
			for _, size := range []int{1024, 65535, 65536, 65537, 1 << 17, 1<<20 + 3} {
				k := []byte(fmt.Sprintf("key-%d", size))
				small := []byte("short value")
				long := bytes.Repeat([]byte{byte(size)}, size)
				long[0], long[size-1] = 0x01, 0x02
				_ = u.Put(k, small)
				if _, gerr := u.Get(k); gerr != nil {
					res.Fails = append(res.Fails, core.Fail{Property: prop, Step: -1, Msg: fmt.Sprintf("long values (cache=%s db=%s): Get after Put(%s, short) fails: %v", cc.Type, dc.Type, k, gerr)})
				}
				if perr := u.Put(k, long); perr != nil {
					continue
				}
				n++
				v, gerr := u.Get(k)
				if gerr != nil || !bytes.Equal(v, long) {
					res.Fails = append(res.Fails, core.Fail{Property: prop, Step: -1,
						Msg: fmt.Sprintf("long values (cache=%s db=%s): after the acknowledged Put(%s, %d bytes) Get returns %d bytes (err %v): not the last acknowledged value", cc.Type, dc.Type, k, size, len(v), gerr)})
				}
				u.ClearCache()
				v, gerr = u.Get(k)
				if gerr != nil || !bytes.Equal(v, long) {
					res.Fails = append(res.Fails, core.Fail{Property: prop, Step: -1,
						Msg: fmt.Sprintf("long values (cache=%s db=%s): after ClearCache Get(%s) returns %d bytes (err %v), the persister should hold the %d-byte value", cc.Type, dc.Type, k, len(v), gerr, size)})
				}
			}
			_ = u.Close()
			res.Counts["long-value-units"]++
		}
	}
	return n
}
