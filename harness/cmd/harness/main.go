package main

import (
	_ "verifharness/adapter"
	_ "verifharness/conc"
	"verifharness/core"
	_ "verifharness/crash"
	_ "verifharness/fifo"
	_ "verifharness/immunity"
	_ "verifharness/lru"
	_ "verifharness/persist"
	_ "verifharness/pool"
	_ "verifharness/scale"
	_ "verifharness/shardid"
	_ "verifharness/stress"
	_ "verifharness/timecache"
	_ "verifharness/unit"
)

func main() { core.Main() }
