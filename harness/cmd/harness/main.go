package main

import (
	"verifharness/core"
	_ "verifharness/pool"
	_ "verifharness/timecache"
	_ "verifharness/unit"
	_ "verifharness/shardid"
)

func main() { core.Main() }
