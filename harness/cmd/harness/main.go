package main

import (
	"verifharness/core"
	_ "verifharness/shardid"
)

func main() { core.Main() }
