package main

import (
	"verifharness/core"
	_ "verifharness/pool"
	_ "verifharness/timecache"
	_ "verifharness/unit"
	_ "verifharness/persist"
	_ "verifharness/fifo"
	_ "verifharness/lru"
	_ "verifharness/adapter"
	_ "verifharness/immunity"
	_ "verifharness/crash"
	_ "verifharness/conc"
	_ "verifharness/stress"
	_ "verifharness/shardid"
)

func main() { core.Main() }
