package main

import (
	"verifharness/core"
	_ "verifharness/immunity"
)

func main() { core.Main() }
