package main

import (
	_ "verifharness/conc"
	"verifharness/core"
)

func main() { core.Main() }
