package main

import (
	"verifharness/core"
	_ "verifharness/timecache"
)

func main() { core.Main() }
