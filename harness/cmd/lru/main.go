// Development binary for the components "lru" (C15) and "adapter" (C17).
package main

import (
	_ "verifharness/adapter"
	"verifharness/core"
	_ "verifharness/lru"
)

func main() { core.Main() }
