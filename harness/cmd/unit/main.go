package main

import (
	"verifharness/core"
	_ "verifharness/unit"
)

func main() { core.Main() }
