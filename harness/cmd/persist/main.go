package main

import (
	"verifharness/core"
	_ "verifharness/persist"
)

func main() { core.Main() }
