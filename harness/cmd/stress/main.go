// Development binary of the stress component (C14).
package main

import (
	"verifharness/core"
	_ "verifharness/stress"
)

func main() { core.Main() }
