package main

import (
	"verifharness/core"
	_ "verifharness/crash"
)

func main() { core.Main() }
