// Development binary of the fifo component (FRAMEWORK §3).
package main

import (
	"verifharness/core"
	_ "verifharness/fifo"
)

func main() { core.Main() }
