package timecache

// Real-time validation of C18 (the part of the property the Coq model cannot exhibit: the real clock and
// the background goroutine of timeCacher).
//
// Every call is bracketed by two readings of the monotonic clock (lo before, hi after); the clock reading the
// operation takes internally lies in [lo, hi]. With a key added/upserted in [loA, hiA] and span d:
//   - a query bracketed by [loQ, hiQ] MUST report the key when hiQ - loA <= dmin (the span has certainly not
//     elapsed at any sweep that ran before the query returned);
//   - an explicit Sweep bracketed by [loS, hiS] MUST remove the key when loS - hiA > dmax (the sweep certainly
//     started after the span elapsed);
//   - in between nothing is asserted (counted as "undecided").
// dmin/dmax: lower/upper bound of the effective span (they differ only after an Upsert of a key that may or may
// not have been swept before).
// The self-sweeping cacher is never swept by the harness: an expired entry must disappear by itself within
// dropIntervals sweep intervals (CacheExpiry) after its span elapsed.

import (
	"fmt"
	"math/rand"
	"sort"
	"strings"
	"sync"
	"time"

	"verifharness/core"
)

const dropIntervals = 3

type rtStep struct {
	at   time.Duration
	code int
	key  string
	span time.Duration
}

type rtCase struct {
	name        string
	kind        int
	defaultSpan time.Duration
	expiry      time.Duration // CacheExpiry (cacher only)
	keys        []string
	steps       []rtStep
	poll        time.Duration
	until       time.Duration // hard end of the case
}

func (c *rtCase) String() string {
	var sb strings.Builder
	fmt.Fprintf(&sb, "case %s kind=%d default=%s expiry=%s poll=%s until=%s:", c.name, c.kind, c.defaultSpan, c.expiry, c.poll, c.until)
	for _, s := range c.steps {
		fmt.Fprintf(&sb, " @%s %s(%q", s.at, opName(s.code), s.key)
		if s.code == opAddWithSpan || s.code == opUpsert {
			fmt.Fprintf(&sb, ",%s", s.span)
		}
		sb.WriteString(")")
	}
	return sb.String()
}

func opName(code int) string {
	switch code {
	case opAdd:
		return "Add"
	case opAddWithSpan:
		return "AddWithSpan"
	case opUpsert:
		return "Upsert"
	case opPut:
		return "Put"
	case opHasOrAdd:
		return "HasOrAdd"
	case opRemove:
		return "Remove"
	case opSweep:
		return "Sweep"
	}
	return fmt.Sprintf("op%d", code)
}

type rtLife struct {
	loA, hiA   time.Duration // bracket of the latest add/upsert
	dmin, dmax time.Duration // bounds of the effective span
	sweeps     int           // explicit sweeps survived since
	prevExpiry time.Duration // upper bound of the expiry before the latest refresh (0 = none)
}

type rtOutcome struct {
	counts  map[string]int
	fails   []string
	asserts int
	sample  string
}

func runRT(c *rtCase) *rtOutcome {
	out := &rtOutcome{counts: map[string]int{}}
	hit := func(s string) { out.counts[s]++ }
	failf := func(format string, a ...interface{}) {
		if len(out.fails) < 5 {
			out.fails = append(out.fails, fmt.Sprintf(format, a...)+" | "+c.String())
		}
	}
	f, err := build(c.kind, int64(c.defaultSpan), int64(c.expiry))
	if err != nil {
		failf("constructor failed: %v", err)
		return out
	}
	defer f.close()
	start := time.Now()
	mono := func() time.Duration { return time.Since(start) }
	selfSweep := c.kind == kindCacher
	lives := map[string]*rtLife{}

	surelyPresent := func(l *rtLife, hi time.Duration) bool { return l != nil && hi-l.loA <= l.dmin }

	// observe Has for every key, with brackets, and apply the rules of the header
	observe := func(afterSweep bool) {
		for _, k := range c.keys {
			lo := mono()
			present := f.has([]byte(k))
			hi := mono()
			l := lives[k]
			if l == nil {
				continue
			}
			switch {
			case hi-l.loA <= l.dmin:
				out.asserts++
				if !present {
					failf("key %q not reported at +%s although its latest add/upsert was not before +%s with span >= %s (%d sweeps in between)", k, hi, l.loA, l.dmin, l.sweeps)
					delete(lives, k)
					continue
				}
				hit("present-asserted")
				if l.sweeps > 0 {
					hit("retained-across-sweep")
				}
				if selfSweep && hi > c.expiry+50*time.Millisecond {
					hit("retained-while-goroutine-sweeps")
				}
				if l.prevExpiry > 0 && lo > l.prevExpiry {
					hit("present-beyond-previous-expiry(refresh-extended-life)")
				}
			case selfSweep && lo-l.hiA > l.dmax+dropIntervals*c.expiry:
				out.asserts++
				if present {
					failf("self-sweeping cacher still holds %q at +%s: span <= %s elapsed since +%s and %d sweep intervals of %s passed", k, lo, l.dmax, l.hiA, dropIntervals, c.expiry)
				} else {
					hit("self-swept-in-time")
				}
				delete(lives, k)
			default:
				if !present {
					if lo-l.hiA > l.dmax {
						if selfSweep {
							hit("expired-and-swept-by-goroutine")
							if out.sample == "" {
								out.sample = fmt.Sprintf("%s: %q gone by itself %s after its span elapsed", c.name, k, (lo - l.hiA - l.dmax).Round(time.Millisecond))
							}
						} else {
							hit("expired-and-swept")
						}
					} else {
						hit("dropped-inside-undecided-window")
					}
					delete(lives, k)
				} else {
					hit("undecided")
				}
			}
		}
	}

	doStep := func(s rtStep) {
		lo := mono()
		var has, added bool
		var e error
		switch s.code {
		case opAdd:
			e = f.add(s.key)
		case opAddWithSpan:
			e = f.addWithSpan(s.key, s.span)
		case opUpsert:
			e = f.upsert(s.key, s.span)
		case opPut:
			f.put([]byte(s.key), []byte("v"))
		case opHasOrAdd:
			has, added = f.hasOrAdd([]byte(s.key), []byte("v"))
		case opRemove:
			f.remove([]byte(s.key))
		}
		hi := mono()
		if e != nil {
			failf("%s(%q) failed: %v", opName(s.code), s.key, e)
			return
		}
		l := lives[s.key]
		prevExp := time.Duration(0)
		if l != nil {
			prevExp = l.hiA + l.dmax
		}
		switch s.code {
		case opAdd, opPut:
			nl := &rtLife{loA: lo, hiA: hi, dmin: c.defaultSpan, dmax: c.defaultSpan, prevExpiry: prevExp}
			if l != nil && surelyPresent(l, hi) && hi+c.defaultSpan < l.loA+l.dmin {
				hit("add-shortens")
			}
			if l != nil {
				hit("add-replaces")
			}
			lives[s.key] = nl
		case opAddWithSpan:
			if l != nil && surelyPresent(l, hi) && hi+s.span < l.loA+l.dmin {
				hit("add-shortens")
			}
			if l != nil {
				hit("add-replaces")
			}
			lives[s.key] = &rtLife{loA: lo, hiA: hi, dmin: s.span, dmax: s.span, prevExpiry: prevExp}
		case opUpsert:
			switch {
			case l == nil:
				lives[s.key] = &rtLife{loA: lo, hiA: hi, dmin: s.span, dmax: s.span}
				hit("upsert-of-absent-key")
			case surelyPresent(l, hi):
				if s.span > l.dmax {
					hit("upsert-extends")
				} else if s.span < l.dmin {
					hit("upsert-smaller-span")
				}
				lives[s.key] = &rtLife{loA: lo, hiA: hi, dmin: maxD(l.dmin, s.span), dmax: maxD(l.dmax, s.span), prevExpiry: prevExp}
			default:
				hit("upsert-of-possibly-swept-key")
				lives[s.key] = &rtLife{loA: lo, hiA: hi, dmin: s.span, dmax: maxD(l.dmax, s.span), prevExpiry: prevExp}
			}
		case opHasOrAdd:
			switch {
			case surelyPresent(l, hi):
				out.asserts++
				if !has || added {
					failf("HasOrAdd(%q) at +%s answers (has=%v, added=%v) within the span of the key (added not before +%s, span >= %s)", s.key, hi, has, added, l.loA, l.dmin)
				}
				hit("hasoradd-finds-retained-key")
			case added:
				lives[s.key] = &rtLife{loA: lo, hiA: hi, dmin: c.defaultSpan, dmax: c.defaultSpan, prevExpiry: prevExp}
				hit("hasoradd-adds")
			case l == nil:
				failf("HasOrAdd(%q) at +%s answers (has=%v, added=%v) for a key that is not in the cache", s.key, hi, has, added)
			}
		case opRemove:
			delete(lives, s.key)
		}
	}

	sweep := func() {
		lo := mono()
		f.sweep()
		for k, l := range lives {
			if lo-l.hiA > l.dmax {
				// this sweep started after the span elapsed: the key must be gone now
				out.asserts++
				if f.has([]byte(k)) {
					failf("Sweep started at +%s left %q although its span <= %s elapsed since its latest add/upsert (not after +%s)", lo, k, l.dmax, l.hiA)
				} else {
					hit("expired-and-swept(asserted)")
					if l.prevExpiry > l.hiA+l.dmax && lo < l.prevExpiry {
						hit("dropped-before-previous-expiry(add-shortened-life)")
					}
				}
				delete(lives, k)
			} else {
				l.sweeps++
			}
		}
	}

	steps := append([]rtStep(nil), c.steps...)
	sort.SliceStable(steps, func(i, j int) bool { return steps[i].at < steps[j].at })
	next := 0
	for tick := 0; ; tick++ {
		target := time.Duration(tick) * c.poll
		if target > c.until {
			break
		}
		// scripted steps due before this tick are run at their own instants
		for next < len(steps) && steps[next].at <= target {
			if d := steps[next].at - mono(); d > 0 {
				time.Sleep(d)
			}
			doStep(steps[next])
			next++
		}
		if d := target - mono(); d > 0 {
			time.Sleep(d)
		}
		if !selfSweep {
			sweep()
		}
		observe(!selfSweep)
		if next == len(steps) && len(lives) == 0 {
			break
		}
	}
	for k, l := range lives {
		_, _ = k, l
		hit("case-ended-with-undecided-key")
	}
	return out
}

func maxD(a, b time.Duration) time.Duration {
	if a > b {
		return a
	}
	return b
}

const sec = time.Second
const ms = time.Millisecond

func scriptedCases() []*rtCase {
	return []*rtCase{
		{name: "add-expire", kind: kindTimeCache, defaultSpan: 1 * sec, keys: []string{"a"},
			steps: []rtStep{{0, opAdd, "a", 0}}, poll: 100 * ms, until: 2 * sec},
		{name: "sweep-just-before-expiry", kind: kindTimeCache, defaultSpan: 1 * sec, keys: []string{"a"},
			steps: []rtStep{{0, opAdd, "a", 0}}, poll: 95 * ms, until: 2 * sec},
		{name: "upsert-smaller-span", kind: kindTimeCache, defaultSpan: 1 * sec, keys: []string{"a"},
			steps: []rtStep{{0, opAddWithSpan, "a", 2 * sec}, {500 * ms, opUpsert, "a", 1 * sec}}, poll: 100 * ms, until: 3500 * ms},
		{name: "upsert-extends", kind: kindTimeCache, defaultSpan: 1 * sec, keys: []string{"a"},
			steps: []rtStep{{0, opAddWithSpan, "a", 1 * sec}, {500 * ms, opUpsert, "a", 2 * sec}}, poll: 100 * ms, until: 3500 * ms},
		{name: "add-shortens", kind: kindTimeCache, defaultSpan: 1 * sec, keys: []string{"a"},
			steps: []rtStep{{0, opAddWithSpan, "a", 2 * sec}, {300 * ms, opAdd, "a", 0}}, poll: 100 * ms, until: 2500 * ms},
		{name: "two-keys-independent", kind: kindTimeCache, defaultSpan: 1 * sec, keys: []string{"a", "b"},
			steps: []rtStep{{0, opAddWithSpan, "a", 2 * sec}, {0, opAdd, "b", 0}, {1500 * ms, opUpsert, "b", 1 * sec}}, poll: 100 * ms, until: 3500 * ms},
		{name: "peer-upserts", kind: kindPeer, defaultSpan: 1 * sec, keys: []string{"p", "q"},
			steps: []rtStep{{0, opUpsert, "p", 1 * sec}, {400 * ms, opUpsert, "p", 2 * sec}, {400 * ms, opUpsert, "q", 1 * sec}, {900 * ms, opUpsert, "q", 1 * sec}},
			poll:  100 * ms, until: 3500 * ms},
		{name: "cacher-self-sweep", kind: kindCacher, defaultSpan: 1 * sec, expiry: 1 * sec, keys: []string{"a"},
			steps: []rtStep{{0, opPut, "a", 0}}, poll: 50 * ms, until: 5 * sec},
		{name: "cacher-put-restarts-countdown", kind: kindCacher, defaultSpan: 1 * sec, expiry: 1 * sec, keys: []string{"a"},
			steps: []rtStep{{0, opPut, "a", 0}, {700 * ms, opPut, "a", 0}}, poll: 50 * ms, until: 5700 * ms},
		{name: "cacher-hasoradd", kind: kindCacher, defaultSpan: 1 * sec, expiry: 1 * sec, keys: []string{"a", "b"},
			steps: []rtStep{{0, opPut, "a", 0}, {500 * ms, opHasOrAdd, "a", 0}, {500 * ms, opHasOrAdd, "b", 0}}, poll: 50 * ms, until: 5500 * ms},
		{name: "cacher-late-put-2s-span", kind: kindCacher, defaultSpan: 2 * sec, expiry: 1 * sec, keys: []string{"a"},
			steps: []rtStep{{300 * ms, opPut, "a", 0}}, poll: 50 * ms, until: 6300 * ms},
	}
}

func randomCase(rng *rand.Rand, id int) *rtCase {
	spans := []time.Duration{1 * sec, 1500 * ms, 2 * sec, 3 * sec}
	c := &rtCase{name: fmt.Sprintf("random-%d", id), kind: rng.Intn(3), poll: time.Duration(60+rng.Intn(80)) * ms}
	c.defaultSpan = core.Pick(rng, spans[:3])
	c.expiry = 1 * sec
	nk := 2 + rng.Intn(2)
	c.keys = []string{"a", "b", "c"}[:nk]
	ns := 3 + rng.Intn(6)
	var last time.Duration
	for i := 0; i < ns; i++ {
		at := time.Duration(rng.Intn(3000))*ms + time.Duration(rng.Intn(1000))*time.Microsecond
		if at > last {
			last = at
		}
		k := core.Pick(rng, c.keys)
		var s rtStep
		switch c.kind {
		case kindTimeCache:
			s = rtStep{at, core.Pick(rng, []int{opAdd, opAddWithSpan, opUpsert, opUpsert}), k, core.Pick(rng, spans)}
		case kindPeer:
			s = rtStep{at, opUpsert, k, core.Pick(rng, spans)}
		default:
			s = rtStep{at, core.Pick(rng, []int{opPut, opPut, opHasOrAdd, opHasOrAdd, opRemove}), k, 0}
		}
		c.steps = append(c.steps, s)
	}
	c.until = last + 3*sec + 300*ms
	if c.kind == kindCacher {
		c.until = last + c.defaultSpan + (dropIntervals+1)*c.expiry
	}
	return c
}

// Extra: real-time validation. quick: the scripted cases, run concurrently (about 6.5 s of wall time);
// thorough: the scripted cases plus batches of random cases (seeded), under 3 minutes.
func (comp) Extra(prop string, tier string, seed int64, scratch string) *core.ExtraResult {
	res := &core.ExtraResult{Counts: map[string]int{}}
	t0 := time.Now()
	var batches [][]*rtCase
	batches = append(batches, scriptedCases())
	if tier == "thorough" {
		rng := rand.New(rand.NewSource(seed))
		id := 0
		for b := 0; b < 18; b++ {
			var batch []*rtCase
			for i := 0; i < 48; i++ {
				batch = append(batch, randomCase(rng, id))
				id++
			}
			batches = append(batches, batch)
		}
	}
	ncases := 0
	for _, batch := range batches {
		outs := make([]*rtOutcome, len(batch))
		var wg sync.WaitGroup
		for i, c := range batch {
			wg.Add(1)
			go func(i int, c *rtCase) {
				defer wg.Done()
				outs[i] = runRT(c)
			}(i, c)
		}
		wg.Wait()
		for i, o := range outs {
			ncases++
			res.Evaluations += o.asserts
			for k, v := range o.counts {
				res.Counts[k] += v
			}
			for _, m := range o.fails {
				res.Fails = append(res.Fails, core.Fail{Property: "C18", Step: -1, Msg: m})
				res.Replays = append(res.Replays, fmt.Sprintf("seed=%d tier=%s %s", seed, tier, batch[i].String()))
			}
			if o.sample != "" && len(res.Samples) < 4 {
				res.Samples = append(res.Samples, o.sample)
			}
		}
		if time.Since(t0) > 170*time.Second {
			break
		}
	}
	// concurrency face of the property: refresh during a sweep
	if tier == "thorough" {
		refreshVsSweep(res, 200, 2000)
	} else {
		refreshVsSweep(res, 40, 2000)
	}
	res.Distinct = ncases
	res.Counts["cases"] = ncases
	res.Counts["wall_ms"] = int(time.Since(t0) / time.Millisecond)
	res.Rule = "real time, spans 1-3 s: scripted cases (add-expire, sweep just before expiry, upsert with smaller/larger span, add shortening the life, " +
		"peer upserts, self-sweeping cacher with CacheExpiry 1 s never swept by the harness" +
		map[bool]string{true: ") plus 18x48 seeded random cases", false: ")"}[tier == "thorough"] +
		"; refresh-vs-sweep rounds (expired unswept keys re-upserted with a long span while Sweep runs: all must be present afterwards)" +
		"; every call bracketed by monotonic clock readings; 'present' asserted only while the upper bracket is inside the span, 'gone' only after a sweep " +
		"whose lower bracket is beyond it; the cacher must drop an expired entry by itself within 3 sweep intervals; evaluations = assertions decided"
	return res
}
