package timecache

import (
	"fmt"
	"sync"
	"time"

	chaincore "github.com/multiversx/mx-chain-core-go/core"
	tcimpl "github.com/multiversx/mx-chain-storage-go/timecache"
	"verifharness/core"
)

// refreshVsSweep: keys that are expired but not yet swept are re-upserted with a long span WHILE a sweep runs.
// Whatever the interleaving, after both have finished every key must be present: its latest upsert is younger than
// its span ("reported present until d has elapsed since its latest add or upsert, no matter how many sweeps run").
// A sweep that decides "expired" and deletes in two separate critical sections loses refreshed keys here.
func refreshVsSweep(res *core.ExtraResult, rounds, nKeys int) {
	lost := 0
	for r := 0; r < rounds; r++ {
		tc := tcimpl.NewTimeCache(time.Hour)
		peer, err := tcimpl.NewPeerTimeCache(tcimpl.NewTimeCache(time.Hour))
		if err != nil {
			res.Fails = append(res.Fails, core.Fail{Property: "C18", Step: -1, Msg: "NewPeerTimeCache: " + err.Error()})
			return
		}
		keys := make([]string, nKeys)
		for i := range keys {
			keys[i] = fmt.Sprintf("r%d-k%04d", r, i)
			_ = tc.AddWithSpan(keys[i], time.Microsecond)
			_ = peer.Upsert(chaincore.PeerID(keys[i]), time.Microsecond)
		}
		time.Sleep(2 * time.Millisecond) // every key is expired now, none is swept yet
		var wg sync.WaitGroup
		start := make(chan struct{})
		wg.Add(3)
		go func() { defer wg.Done(); <-start; tc.Sweep(); peer.Sweep() }()
		go func() {
			defer wg.Done()
			<-start
			for _, k := range keys {
				_ = tc.Upsert(k, time.Hour)
			}
		}()
		go func() {
			defer wg.Done()
			<-start
			for _, k := range keys {
				_ = peer.Upsert(chaincore.PeerID(k), time.Hour)
			}
		}()
		close(start)
		wg.Wait()
		for _, k := range keys {
			res.Evaluations++
			if !tc.Has(k) || !peer.Has(chaincore.PeerID(k)) {
				lost++
				if lost <= 3 {
					res.Fails = append(res.Fails, core.Fail{Property: "C18", Step: -1,
						Msg: fmt.Sprintf("key %s was upserted with a span of one hour while a sweep was running and is absent afterwards (TimeCache.Has=%v, peerTimeCache.Has=%v): a sweep removed an entry whose countdown had restarted", k, tc.Has(k), peer.Has(chaincore.PeerID(k)))})
					res.Replays = append(res.Replays, fmt.Sprintf("refresh-vs-sweep round %d: AddWithSpan(k,1us) for %d keys; sleep 2ms; concurrently Sweep() and Upsert(k,1h) for all keys; Has(%s) must be true", r, nKeys, k))
				}
			}
		}
	}
	res.Counts["refresh_vs_sweep_rounds"] = rounds
	res.Counts["refresh_vs_sweep_keys_lost"] = lost
}
