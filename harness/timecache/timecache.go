// Package timecache drives timecache.TimeCache / peerTimeCache / timeCacher in virtual time (C18).
//
// Virtual time: the history carries a clock reading (ns) in every op. Before an op whose reading is
// later than the previous one the harness calls VerifShiftTimestamps(delta) (verif build tag), which
// makes every stored entry delta older - the same as the clock having advanced by delta. Spans are odd
// multiples of 30 minutes and readings whole hours, so the real microseconds that elapse while a
// history runs can never flip a comparison: model and implementation must agree exactly.
package timecache

import (
	"fmt"
	"math"
	"math/rand"
	"strings"
	"sync"
	"time"

	mxcore "github.com/multiversx/mx-chain-core-go/core"
	"github.com/multiversx/mx-chain-storage-go/timecache"
	"verifharness/core"
)

type comp struct{}

func init() { core.Register(comp{}) }

func (comp) Name() string { return "timecache" }

const (
	opAdd         = 1
	opAddWithSpan = 2
	opUpsert      = 3
	opPut         = 4
	opHasOrAdd    = 5
	opRemove      = 6
	opSweep       = 7
	opHas         = 8
	opLen         = 9
	opGet         = 10
	opPeek        = 11
	opKeys        = 12
	opClear       = 13

	kindTimeCache = 0
	kindPeer      = 1
	kindCacher    = 2
)

const halfHour = int64(30 * time.Minute)
const hour = int64(time.Hour)

// hugeExpiry keeps the goroutine of timeCacher asleep during a virtual-time history:
// its sweeps are explicit op 7 events there.
const hugeExpiry = int64(1000 * time.Hour)

var silence sync.Once

// ---------------------------------------------------------------- generator

var spanTable = []int64{1 * halfHour, 3 * halfHour, 5 * halfHour, 7 * halfHour}
var keyTable = [][]byte{[]byte("a"), []byte("b"), []byte("c"), []byte("dd"), {0x00, 0xff}}
var valTable = [][]byte{[]byte("v1"), []byte("v2"), {}, []byte("V1"), {0x80}, {0xff}}

func durStr(d int64) string {
	return time.Duration(d).String()
}

func valTok(v []byte, isNil bool) string {
	if isNil {
		return "-"
	}
	return core.B(v)
}

func configOf(h *core.History, kind int, span int64, alpha [][]byte, expiry int64) {
	h.SetConfig(core.N(uint64(kind)), core.I(span), core.LB(alpha), core.I(expiry))
}

func (comp) Gen(prop string, rng *rand.Rand, tier string) *core.History {
	h := &core.History{}
	kind := rng.Intn(3)
	nkeys := 3 + rng.Intn(3)
	alpha := make([][]byte, 0, nkeys+1)
	perm := rng.Perm(len(keyTable))
	for i := 0; i < nkeys; i++ {
		alpha = append(alpha, keyTable[perm[i]])
	}
	alpha = core.WithLongKeys(rng, alpha, 12)
	if core.Chance(rng, 1, 8) {
		alpha = append(alpha, []byte{}) // the empty key is refused by every adding operation
	}
	span := core.Pick(rng, spanTable)
	expiry := hugeExpiry
	if kind != kindCacher && core.Chance(rng, 1, 12) {
		span = -core.Pick(rng, spanTable) // TimeCache accepts any default span
	}
	if kind == kindCacher && core.Chance(rng, 1, 40) {
		// checkArg: both durations must be >= 1 s
		switch rng.Intn(3) {
		case 0:
			span = int64(time.Second) - 1
		case 1:
			expiry = int64(time.Second) - 1
		default:
			span = -halfHour
		}
	}
	configOf(h, kind, span, alpha, expiry)
	nops := core.LongHistory(rng, 8+rng.Intn(25))
	now := int64(0)
	key := func() []byte { return core.Pick(rng, alpha) }
	sp := func() int64 {
		if core.Chance(rng, 1, 15) {
			return -core.Pick(rng, spanTable)
		}
		if core.Chance(rng, 1, 25) {
			return core.Pick(rng, []int64{1 << 62, math.MaxInt64, math.MaxInt64 - 1}) // spans at the edge of time.Duration ("keep forever"): never expires (spans below the clock's noise are not generated: boundary instants cannot be produced against a real clock)
		}
		return core.Pick(rng, spanTable)
	}
	val := func() string {
		if core.Chance(rng, 1, 6) {
			return "-"
		}
		return core.B(core.Pick(rng, valTable))
	}
	for i := 0; i < nops; i++ {
		now += core.Pick(rng, []int64{0, 0, 0, hour, hour, hour, 2 * hour, 3 * hour, 4 * hour})
		t := core.I(now)
		at := "@" + durStr(now)
		switch kind {
		case kindTimeCache:
			switch r := rng.Intn(20); {
			case r < 4:
				k := key()
				h.Add(opAdd, fmt.Sprintf("Add %q %s", k, at), t, core.B(k))
			case r < 8:
				k, d := key(), sp()
				h.Add(opAddWithSpan, fmt.Sprintf("AddWithSpan %q %s %s", k, durStr(d), at), t, core.B(k), core.I(d))
			case r < 13:
				k, d := key(), sp()
				h.Add(opUpsert, fmt.Sprintf("Upsert %q %s %s", k, durStr(d), at), t, core.B(k), core.I(d))
			case r < 17:
				h.Add(opSweep, "Sweep "+at, t)
			case r < 19:
				k := key()
				h.Add(opHas, fmt.Sprintf("Has %q %s", k, at), t, core.B(k))
			default:
				h.Add(opLen, "Len "+at, t)
			}
		case kindPeer:
			switch r := rng.Intn(10); {
			case r < 6:
				k, d := key(), sp()
				h.Add(opUpsert, fmt.Sprintf("Upsert %q %s %s", k, durStr(d), at), t, core.B(k), core.I(d))
			case r < 9:
				h.Add(opSweep, "Sweep "+at, t)
			default:
				k := key()
				h.Add(opHas, fmt.Sprintf("Has %q %s", k, at), t, core.B(k))
			}
		default:
			switch r := rng.Intn(40); {
			case r < 10:
				k := key()
				h.Add(opPut, fmt.Sprintf("Put %q %s", k, at), t, core.B(k), val())
			case r < 17:
				k := key()
				h.Add(opHasOrAdd, fmt.Sprintf("HasOrAdd %q %s", k, at), t, core.B(k), val())
			case r < 21:
				k := key()
				if core.Chance(rng, 1, 8) {
					h.Add(opRemove, "Remove nil "+at, t, "-")
				} else {
					h.Add(opRemove, fmt.Sprintf("Remove %q %s", k, at), t, core.B(k))
				}
			case r < 29:
				h.Add(opSweep, "sweep (goroutine round) "+at, t)
			case r < 31:
				k := key()
				h.Add(opHas, fmt.Sprintf("Has %q %s", k, at), t, core.B(k))
			case r < 33:
				h.Add(opLen, "Len "+at, t)
			case r < 35:
				k := key()
				h.Add(opGet, fmt.Sprintf("Get %q %s", k, at), t, core.B(k))
			case r < 37:
				k := key()
				h.Add(opPeek, fmt.Sprintf("Peek %q %s", k, at), t, core.B(k))
			case r < 39:
				h.Add(opKeys, "Keys "+at, t)
			default:
				h.Add(opClear, "Clear "+at, t)
			}
		}
	}
	return h
}

// ---------------------------------------------------------------- exhaustive small scope

type xop struct {
	code int
	key  []byte
	span int64
}

func xops(kind int, keys [][]byte, spans []int64) []xop {
	var out []xop
	switch kind {
	case kindTimeCache:
		for _, k := range keys {
			out = append(out, xop{opAdd, k, 0}) // default span = spans[0]
			out = append(out, xop{opAddWithSpan, k, spans[1]})
			for _, s := range spans {
				out = append(out, xop{opUpsert, k, s})
			}
		}
	case kindPeer:
		for _, k := range keys {
			for _, s := range spans {
				out = append(out, xop{opUpsert, k, s})
			}
		}
	default:
		for _, k := range keys {
			out = append(out, xop{opPut, k, 0}, xop{opHasOrAdd, k, 0}, xop{opRemove, k, 0})
		}
	}
	out = append(out, xop{opSweep, nil, 0})
	return out
}

func (x xop) emit(h *core.History, now int64) {
	t := core.I(now)
	switch x.code {
	case opAdd, opRemove:
		h.Add(x.code, "", t, core.B(x.key))
	case opAddWithSpan, opUpsert:
		h.Add(x.code, "", t, core.B(x.key), core.I(x.span))
	case opPut, opHasOrAdd:
		h.Add(x.code, "", t, core.B(x.key), core.B([]byte("v")))
	default:
		h.Add(x.code, "", t)
	}
}

// Exhaustive: every sequence of exactly L (clock advance, operation) pairs; observables are printed
// after every op, so every shorter sequence is covered as a prefix. Advances {0, 1h, 2h} (the first
// one is 0: the cache is empty), spans {30m, 90m} (default span 30m), operations per kind see xops.
//
//	quick:    two keys L = 3, one key L = 4
//	thorough: two keys L = 4, one key L = 5
func (comp) Exhaustive(prop string, tier string, yield func(*core.History)) {
	scaleN := 0
	if strings.HasSuffix(prop, ":scale") {
		scaleN = 1500 // MONITOR-ONLY: thousands of keys expiring together
	}
	// one LARGE-POPULATION history per kind (beyond the small scope): several hundred keys expire together and one sweep must drop
	// them all; the survivors are exactly the keys refreshed in between (a threshold inside a sweep would show here and nowhere else)
	for kind := 0; kind < 3; kind++ {
		n := 700
		if tier == "thorough" {
			n = 2100
		}
		if scaleN > 0 {
			n = scaleN
		}
		alpha := make([][]byte, n)
		for j := range alpha {
			alpha[j] = []byte(fmt.Sprintf("k%04d", j))
		}
		h := &core.History{}
		// only a few keys are probed after every operation (the alphabet of the history); Len and Keys see them all
		watch := [][]byte{alpha[0], alpha[1], alpha[510], alpha[511], alpha[512], alpha[513], alpha[n-1]}
		configOf(h, kind, 3*halfHour, watch, hugeExpiry)
		add := func(now int64, k []byte) {
			t := core.I(now)
			switch kind {
			case kindTimeCache:
				h.Add(opAdd, fmt.Sprintf("Add %q", k), t, core.B(k))
			case kindPeer:
				h.Add(opUpsert, fmt.Sprintf("Upsert %q", k), t, core.B(k), core.I(3*halfHour))
			default:
				h.Add(opPut, fmt.Sprintf("Put %q", k), t, core.B(k), core.B([]byte("v1")))
			}
		}
		for _, k := range alpha {
			add(0, k)
		}
		// refresh a few of them one hour later: they must survive the sweep at 2 h (span 1 h 30)
		for _, j := range []int{0, 511, 512, n - 1} {
			add(hour, alpha[j])
		}
		h.Add(opSweep, "Sweep @2h", core.I(2*hour))
		h.Add(opLen, "Len @2h", core.I(2*hour))
		h.Add(opSweep, "Sweep @4h", core.I(4*hour))
		h.Add(opLen, "Len @4h", core.I(4*hour))
		yield(h)
	}
	if scaleN > 0 {
		return
	}
	spans := []int64{1 * halfHour, 3 * halfHour}
	advances := []int64{0, hour, 2 * hour}
	l2, l1 := 3, 4
	if tier == "thorough" {
		l2, l1 = 4, 5
	}
	type scope struct {
		keys [][]byte
		l    int
	}
	scopes := []scope{{[][]byte{[]byte("a"), []byte("b")}, l2}, {[][]byte{[]byte("a")}, l1}}
	for _, sc := range scopes {
		for kind := 0; kind < 3; kind++ {
			ops := xops(kind, sc.keys, spans)
			idx := make([]int, sc.l) // op index per position
			adv := make([]int, sc.l) // advance index per position (adv[0] stays 0)
			for {
				h := &core.History{}
				configOf(h, kind, spans[0], sc.keys, hugeExpiry)
				now := int64(0)
				for p := 0; p < sc.l; p++ {
					now += advances[adv[p]]
					ops[idx[p]].emit(h, now)
				}
				yield(h)
				// next combination (mixed radix counter)
				p := sc.l - 1
				for p >= 0 {
					adv[p]++
					if p > 0 && adv[p] < len(advances) {
						break
					}
					adv[p] = 0
					idx[p]++
					if idx[p] < len(ops) {
						break
					}
					idx[p] = 0
					p--
				}
				if p < 0 {
					break
				}
			}
		}
	}
}

// ---------------------------------------------------------------- implementation driver

// front is one of the three front-ends behind a common face; nil members are operations the kind lacks.
type front struct {
	kind        int
	core        timecache.VerifCore
	defaultSpan int64
	add         func(k string) error
	addWithSpan func(k string, d time.Duration) error
	upsert      func(k string, d time.Duration) error
	sweep       func()
	has         func(k []byte) bool
	length      func() int
	put         func(k []byte, v interface{}) bool
	hasOrAdd    func(k []byte, v interface{}) (bool, bool)
	remove      func(k []byte)
	get         func(k []byte) (interface{}, bool)
	peek        func(k []byte) (interface{}, bool)
	keys        func() [][]byte
	clear       func()
	close       func()
}

func build(kind int, span int64, expiry int64) (*front, error) {
	silence.Do(timecache.VerifSilenceLog)
	f := &front{kind: kind, defaultSpan: span, close: func() {}}
	switch kind {
	case kindTimeCache:
		tc := timecache.NewTimeCache(time.Duration(span))
		f.core = tc.VerifCore()
		f.add, f.addWithSpan, f.upsert, f.sweep = tc.Add, tc.AddWithSpan, tc.Upsert, tc.Sweep
		f.has = func(k []byte) bool { return tc.Has(string(k)) }
		f.length = tc.Len
	case kindPeer:
		inner := timecache.NewTimeCache(time.Duration(span))
		p, err := timecache.NewPeerTimeCache(inner)
		if err != nil {
			return nil, err
		}
		f.core = p.VerifCore()
		f.upsert = func(k string, d time.Duration) error { return p.Upsert(mxcore.PeerID(k), d) }
		f.sweep = p.Sweep
		f.has = func(k []byte) bool { return p.Has(mxcore.PeerID(k)) }
	case kindCacher:
		c, err := timecache.NewTimeCacher(timecache.ArgTimeCacher{DefaultSpan: time.Duration(span), CacheExpiry: time.Duration(expiry)})
		if err != nil {
			return nil, err
		}
		f.core = c.VerifCore()
		f.sweep = f.core.VerifSweep // what the goroutine does on every tick
		f.has = c.Has
		f.length = c.Len
		f.put = func(k []byte, v interface{}) bool { return c.Put(k, v, 0) }
		f.hasOrAdd = func(k []byte, v interface{}) (bool, bool) { return c.HasOrAdd(k, v, 0) }
		f.remove, f.get, f.peek, f.keys, f.clear = c.Remove, c.Get, c.Peek, c.Keys, c.Clear
		f.close = func() { _ = c.Close() }
	default:
		return nil, fmt.Errorf("unknown kind")
	}
	return f, nil
}

func errCode(err error) uint64 {
	if err == nil {
		return 0
	}
	return 1 // the only error these operations return is common.ErrEmptyKey
}

func valOf(a core.Arg) interface{} {
	if a.IsNil() {
		return nil
	}
	return a.Bytes()
}

func valOut(v interface{}) string {
	if v == nil {
		return "-"
	}
	return core.B(v.([]byte))
}

// life is the harness' own bookkeeping of what the property text owes a key (virtual time).
type life struct {
	t, d int64
}

func (comp) Run(h *core.History, scratch string) *core.Result {
	res := &core.Result{}
	cfg := core.ParseArgs(h.Config)
	kind, span, expiry := cfg[0].Int(), cfg[1].I64(), cfg[3].I64()
	var alpha [][]byte
	for _, a := range cfg[2].List {
		alpha = append(alpha, a.Bytes())
	}
	f, err := build(kind, span, expiry)
	if err != nil {
		res.Obs = append(res.Obs, "init-rejected")
		for range h.Ops {
			res.Obs = append(res.Obs, "r !nostate")
		}
		res.Hit("constructor-rejects")
		return res
	}
	defer f.close()

	lives := map[string]life{}
	prev := int64(0)
	for i, op := range h.Ops {
		res.Scribble() // the key buffers handed to the previous call are reused by their caller
		a := op.Parsed()
		now := a[0].I64()
		if now != prev {
			f.core.VerifShiftTimestamps(time.Duration(now - prev))
			if now < prev {
				res.Hit("clock-went-back")
			}
			prev = now
		}
		var toks []string
		var key []byte
		if len(a) > 1 {
			key = a[1].Bytes()
		}
		ks := string(key)
		old, tracked := lives[ks]
		// refreshed is called when the property text says key ks starts a new life (now, d)
		refreshed := func(d int64, what string) {
			if tracked {
				res.Hit(what + "-of-tracked-key")
				if expiresAt(now, d) < expiresAt(old.t, old.d) && now <= expiresAt(old.t, old.d) {
					res.Hit(what + "-shortens-remaining-life")
				}
				if now > expiresAt(old.t, old.d) {
					res.Hit(what + "-revives-expired-unswept-key")
				}
			}
			lives[ks] = life{now, d}
		}
		switch {
		case op.Code == opAdd && f.add != nil:
			e := f.add(ks)
			toks = append(toks, core.Lbl(1, core.N(errCode(e))))
			if e == nil {
				refreshed(f.defaultSpan, "add")
			} else {
				res.Hit("empty-key-refused")
			}
		case op.Code == opAddWithSpan && f.addWithSpan != nil:
			d := a[2].I64()
			e := f.addWithSpan(ks, time.Duration(d))
			toks = append(toks, core.Lbl(1, core.N(errCode(e))))
			if e == nil {
				refreshed(d, "add")
			} else {
				res.Hit("empty-key-refused")
			}
		case op.Code == opUpsert && f.upsert != nil:
			d := a[2].I64()
			e := f.upsert(ks, time.Duration(d))
			toks = append(toks, core.Lbl(1, core.N(errCode(e))))
			if e == nil {
				if tracked {
					nd := old.d
					switch {
					case d > old.d:
						nd = d
						res.Hit("upsert-extends")
					case d < old.d:
						res.Hit("upsert-smaller-span")
					default:
						res.Hit("upsert-same-span")
					}
					if now > expiresAt(old.t, old.d) {
						res.Hit("upsert-of-expired-unswept-key")
					}
					// Upsert never shortens the remaining life of a key
					if expiresAt(now, nd) < expiresAt(old.t, old.d) {
						res.Failf("C18", i, "Upsert(%q, %s) at %s moves the expiry earlier: was %s, becomes %s", ks, durStr(d), durStr(now), durStr(expiresAt(old.t, old.d)), durStr(expiresAt(now, nd)))
					}
					lives[ks] = life{now, nd}
				} else {
					res.Hit("upsert-of-absent-key")
					lives[ks] = life{now, d}
				}
			} else {
				res.Hit("empty-key-refused")
			}
		case op.Code == opPut && f.put != nil:
			ev := f.put(res.CallerKey(key), valOf(a[2]))
			toks = append(toks, core.Lbl(2, core.Bool(ev)))
			if len(key) > 0 {
				refreshed(f.defaultSpan, "put")
			} else {
				res.Hit("empty-key-refused")
			}
		case op.Code == opHasOrAdd && f.hasOrAdd != nil:
			hs, added := f.hasOrAdd(res.CallerKey(key), valOf(a[2]))
			toks = append(toks, core.Lbl(3, core.Bool(hs)), core.Lbl(4, core.Bool(added)))
			switch {
			case len(key) == 0:
				res.Hit("empty-key-refused")
			case tracked:
				// HasOrAdd of a key still owed its span must find it and leave it alone
				if now <= expiresAt(old.t, old.d) && (!hs || added) {
					res.Failf("C18", i, "HasOrAdd(%q) at %s answers (has=%v, added=%v) although the key was added at %s with span %s", ks, durStr(now), hs, added, durStr(old.t), durStr(old.d))
				}
				if added {
					lives[ks] = life{now, f.defaultSpan}
				}
				res.Hit("hasoradd-of-tracked-key")
			default:
				if added {
					lives[ks] = life{now, f.defaultSpan}
					res.Hit("hasoradd-adds")
				}
			}
		case op.Code == opRemove && f.remove != nil:
			if a[1].IsNil() {
				f.remove(nil)
				res.Hit("remove-nil")
			} else {
				f.remove(key)
				if tracked {
					res.Hit("remove-of-tracked-key")
				}
				delete(lives, ks)
			}
		case op.Code == opSweep && f.sweep != nil:
			f.sweep()
			for k, l := range lives {
				present := f.has([]byte(k))
				if now > expiresAt(l.t, l.d) {
					// a sweep that starts after the span elapsed removes the key
					if present {
						res.Failf("C18", i, "Sweep at %s left key %q although its span %s elapsed (latest add/upsert at %s)", durStr(now), k, durStr(l.d), durStr(l.t))
					}
					res.Hit("expired-and-swept")
					delete(lives, k)
				} else {
					res.Hit("retained-across-sweep")
				}
			}
		case op.Code == opHas && f.has != nil:
			toks = append(toks, core.Lbl(2, core.Bool(f.has(key))))
		case op.Code == opLen && f.length != nil:
			toks = append(toks, core.Lbl(8, core.N(uint64(f.length()))))
		case op.Code == opGet && f.get != nil:
			v, ok := f.get(key)
			toks = append(toks, core.Lbl(5, valOut(v)), core.Lbl(6, core.Bool(ok)))
		case op.Code == opPeek && f.peek != nil:
			v, ok := f.peek(key)
			toks = append(toks, core.Lbl(5, valOut(v)), core.Lbl(6, core.Bool(ok)))
		case op.Code == opKeys && f.keys != nil:
			toks = append(toks, core.Lbl(7, core.SortedLB(f.keys())))
		case op.Code == opClear && f.clear != nil:
			f.clear()
			if len(lives) > 0 {
				res.Hit("clear-of-tracked-keys")
			}
			lives = map[string]life{}
		}

		// observables after every op
		ckeys := f.core.VerifKeys()
		hasL := make([]string, len(alpha))
		spanL := make([]string, len(alpha))
		ageL := make([]string, len(alpha))
		for j, k := range alpha {
			hasL[j] = core.Bool(f.has(k))
			sp, age, ok := f.core.VerifEntry(string(k))
			if ok {
				spanL[j] = core.I(int64(sp))
				ageL[j] = core.I(int64(age) / hour)
			} else {
				spanL[j], ageL[j] = "-", "-"
			}
		}
		toks = append(toks,
			core.Lbl(10, core.N(uint64(len(ckeys)))),
			core.Lbl(11, core.SortedLB(ckeys)),
			core.Lbl(12, core.L(hasL...)),
			core.Lbl(13, core.L(spanL...)),
			core.Lbl(14, core.L(ageL...)))
		res.AddObs(toks...)
		if f.length != nil && f.length() != len(ckeys) {
			res.Failf("*", i, "Len() = %d but %d keys are stored", f.length(), len(ckeys))
		}

		// monitor: every key is reported present until its span has elapsed since its latest
		// add/upsert, whatever sweeps ran; its span and countdown are what the text says
		for k, l := range lives {
			if now > expiresAt(l.t, l.d) {
				res.Hit("expired-not-yet-swept")
				continue
			}
			if !f.has([]byte(k)) {
				res.Failf("C18", i, "key %q is not reported present at %s although it was added/upserted at %s with effective span %s", k, durStr(now), durStr(l.t), durStr(l.d))
				continue
			}
			sp, age, ok := f.core.VerifEntry(k)
			if !ok {
				res.Failf("C18", i, "key %q has no entry at %s", k, durStr(now))
				continue
			}
			if int64(sp) != l.d {
				res.Failf("C18", i, "key %q carries span %s at %s, the operations so far give %s", k, sp, durStr(now), durStr(l.d))
			}
			if drift := int64(age) - (now - l.t); drift < 0 || drift > int64(time.Minute) {
				res.Failf("C18", i, "key %q: countdown started %s ago, expected %s (latest add/upsert at %s, now %s)", k, age, durStr(now-l.t), durStr(l.t), durStr(now))
			}
			if f.get != nil {
				if _, ok := f.get([]byte(k)); !ok {
					res.Failf("C18", i, "Get(%q) misses a key that Has reports", k)
				}
			}
		}
	}
	// use after Close (time cacher only; Close stops the sweeping goroutine, twice is harmless): a key whose span has more than an hour
	// to run is still there right after it
	if kind == kindCacher && f.get != nil {
		var longLived []string
		for k, l := range lives {
			if f.has([]byte(k)) && expiresAt(l.t, l.d)-prev > int64(time.Hour) {
				longLived = append(longLived, k)
			}
		}
		f.close()
		f.close()
		for _, k := range longLived {
			if _, ok := f.get([]byte(k)); !ok || !f.has([]byte(k)) {
				res.Failf("C18", -1, "key %q, whose span has more than an hour to run, is gone right after Close() (Has=%v, Len=%d)", k, f.has([]byte(k)), f.length())
				break
			}
		}
	}
	return res
}

// expiresAt: the instant t+d of the monitor's bookkeeping, saturating (a span of time.Duration(MaxInt64) means "never", it does not wrap)
func expiresAt(t, d int64) int64 {
	if d > 0 && t > math.MaxInt64-d {
		return math.MaxInt64
	}
	return t + d
}
