module verifharness

go 1.20

require (
	github.com/multiversx/mx-chain-storage-go v0.0.0
	github.com/syndtr/goleveldb v1.0.1-0.20220721030215-126854af5e6d
)

require (
	github.com/golang/snappy v0.0.4 // indirect
	github.com/hashicorp/golang-lru v0.6.0 // indirect
	github.com/multiversx/concurrent-map v0.1.4 // indirect
)

require (
	github.com/denisbrodbeck/machineid v1.0.1 // indirect
	github.com/gogo/protobuf v1.3.2 // indirect
	github.com/golang/protobuf v1.5.2 // indirect
	github.com/mr-tron/base58 v1.2.0 // indirect
	github.com/multiversx/mx-chain-core-go v1.2.24
	github.com/multiversx/mx-chain-logger-go v1.0.15
	github.com/pelletier/go-toml v1.9.3 // indirect
	google.golang.org/protobuf v1.28.0 // indirect
)

replace github.com/multiversx/mx-chain-storage-go => /repo
