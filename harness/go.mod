module verifharness

go 1.20

require github.com/multiversx/mx-chain-storage-go v0.0.0

require github.com/multiversx/mx-chain-core-go v1.2.24 // indirect

replace github.com/multiversx/mx-chain-storage-go => /repo
