// Package core: history format, component registry, CLI of the harness.
package core

import (
	"bufio"
	"bytes"
	"encoding/hex"
	"encoding/json"
	"fmt"
	"math/big"
	"math/rand"
	"os"
	"sort"
	"strconv"
	"strings"
	"sync"
	"sync/atomic"
	"time"
)

// ---- wire tokens ----

// N formats a non-negative number.
func N(v uint64) string { return "n" + strconv.FormatUint(v, 16) }

// I formats a signed integer.
func I(v int64) string {
	if v < 0 {
		return "m" + strconv.FormatUint(uint64(-v), 16)
	}
	return "n" + strconv.FormatUint(uint64(v), 16)
}

// Z formats a big integer (nil -> "-").
func Z(v *big.Int) string {
	if v == nil {
		return "-"
	}
	if v.Sign() < 0 {
		return "m" + new(big.Int).Neg(v).Text(16)
	}
	return "n" + v.Text(16)
}

// B formats a byte string (never nil).
func B(b []byte) string { return "b" + hex.EncodeToString(b) }

// OB formats a possibly-nil byte string.
func OB(b []byte) string {
	if b == nil {
		return "-"
	}
	return B(b)
}

// Bool formats a boolean as n1/n0.
func Bool(b bool) string {
	if b {
		return "n1"
	}
	return "n0"
}

// L formats a list of already formatted tokens.
func L(items ...string) string {
	if len(items) == 0 {
		return "[ ]"
	}
	return "[ " + strings.Join(items, " ") + " ]"
}

// LB formats a list of byte strings.
func LB(items [][]byte) string {
	t := make([]string, len(items))
	for i, b := range items {
		t[i] = B(b)
	}
	return L(t...)
}

// SortedLB formats a list of byte strings in ascending order (canonical form of map-ordered outputs).
func SortedLB(items [][]byte) string {
	c := make([][]byte, len(items))
	copy(c, items)
	sort.Slice(c, func(i, j int) bool { return string(c[i]) < string(c[j]) })
	return LB(c)
}

// Lbl prefixes a token with its observable label.
func Lbl(label int, tok string) string { return strconv.Itoa(label) + "=" + tok }

// ---- parsing of tokens (for drivers) ----

// Arg is a parsed argument.
type Arg struct {
	Kind byte // 'n' number, 'b' bytes, '-' nil, 'l' list
	Num  *big.Int
	Byt  []byte
	List []Arg
}

func (a Arg) U64() uint64 {
	if a.Num == nil {
		return 0
	}
	return a.Num.Uint64()
}
func (a Arg) I64() int64 {
	if a.Num == nil {
		return 0
	}
	return a.Num.Int64()
}
func (a Arg) Int() int    { return int(a.I64()) }
func (a Arg) Bool() bool  { return a.Num != nil && a.Num.Sign() != 0 }
func (a Arg) IsNil() bool { return a.Kind == '-' }

// Bytes returns the byte string (nil for a nil arg; non-nil empty slice for "b").
func (a Arg) Bytes() []byte {
	if a.Kind != 'b' {
		return nil
	}
	return a.Byt
}

func parseArgs(toks []string, pos int) ([]Arg, int) {
	var out []Arg
	for pos < len(toks) {
		t := toks[pos]
		switch {
		case t == "]":
			return out, pos + 1
		case t == "[":
			inner, np := parseArgs(toks, pos+1)
			out = append(out, Arg{Kind: 'l', List: inner})
			pos = np
		case t == "-":
			out = append(out, Arg{Kind: '-'})
			pos++
		case t[0] == 'n' || t[0] == 'm':
			v, ok := new(big.Int).SetString(t[1:], 16)
			if !ok {
				panic("bad number token " + t)
			}
			if t[0] == 'm' {
				v.Neg(v)
			}
			out = append(out, Arg{Kind: 'n', Num: v})
			pos++
		case t[0] == 'b':
			b, err := hex.DecodeString(t[1:])
			if err != nil {
				panic("bad bytes token " + t)
			}
			if b == nil {
				b = []byte{}
			}
			out = append(out, Arg{Kind: 'b', Byt: b})
			pos++
		default:
			panic("bad token " + t)
		}
	}
	return out, pos
}

// ParseArgs parses a token list.
func ParseArgs(toks []string) []Arg {
	a, _ := parseArgs(toks, 0)
	return a
}

// ---- histories ----

// Op is one operation line.
type Op struct {
	Code    int
	Args    []string // tokens (may contain "[" / "]" tokens flattened by Fields)
	Comment string
}

// NewOp builds an op; each arg may itself contain spaces (lists) and is re-tokenised.
func NewOp(code int, comment string, args ...string) Op {
	var toks []string
	for _, a := range args {
		toks = append(toks, strings.Fields(a)...)
	}
	return Op{Code: code, Args: toks, Comment: comment}
}

// Parsed returns the parsed arguments.
func (o Op) Parsed() []Arg { return ParseArgs(o.Args) }

// History is one test case.
type History struct {
	ID        string
	Component string
	Config    []string
	Ops       []Op
}

// SetConfig sets config tokens (re-tokenised).
func (h *History) SetConfig(args ...string) {
	h.Config = nil
	for _, a := range args {
		h.Config = append(h.Config, strings.Fields(a)...)
	}
}

// Add appends an op.
func (h *History) Add(code int, comment string, args ...string) {
	h.Ops = append(h.Ops, NewOp(code, comment, args...))
}

// Write serialises the history.
func (h *History) Write(w *bufio.Writer) {
	fmt.Fprintf(w, "history %s\ncomponent %s\nconfig %s\n", h.ID, h.Component, strings.Join(h.Config, " "))
	for _, o := range h.Ops {
		if o.Comment != "" {
			fmt.Fprintf(w, "o %d %s # %s\n", o.Code, strings.Join(o.Args, " "), o.Comment)
		} else {
			fmt.Fprintf(w, "o %d %s\n", o.Code, strings.Join(o.Args, " "))
		}
	}
	fmt.Fprintf(w, "end\n")
}

// Canon is the canonical text (without id and comments), used to count distinct histories.
func (h *History) Canon() string {
	var sb strings.Builder
	sb.WriteString(h.Component + "|" + strings.Join(h.Config, " "))
	for _, o := range h.Ops {
		sb.WriteString("|" + strconv.Itoa(o.Code) + " " + strings.Join(o.Args, " "))
	}
	return sb.String()
}

// ReadHistories parses a history file.
func ReadHistories(path string) ([]*History, error) {
	f, err := os.Open(path)
	if err != nil {
		return nil, err
	}
	defer f.Close()
	sc := bufio.NewScanner(f)
	sc.Buffer(make([]byte, 1<<20), 1<<26)
	var out []*History
	var cur *History
	for sc.Scan() {
		line := sc.Text()
		comment := ""
		if i := strings.IndexByte(line, '#'); i >= 0 {
			comment = strings.TrimSpace(line[i+1:])
			line = line[:i]
		}
		toks := strings.Fields(line)
		if len(toks) == 0 {
			continue
		}
		switch toks[0] {
		case "history":
			cur = &History{ID: toks[1]}
			out = append(out, cur)
		case "component":
			cur.Component = toks[1]
		case "config":
			cur.Config = toks[1:]
		case "o":
			code, err := strconv.Atoi(toks[1])
			if err != nil {
				return nil, err
			}
			cur.Ops = append(cur.Ops, Op{Code: code, Args: toks[2:], Comment: comment})
		case "end":
		default:
			// extra lines of replay files (seed, expected, ...) are ignored
		}
	}
	return out, sc.Err()
}

// ---- components ----

// Fail is a monitor failure: the property evaluated directly on the implementation does not hold.
type Fail struct {
	Property string `json:"property"`
	History  string `json:"history"`
	Step     int    `json:"step"`     // index of the op (0-based); -1 = whole history
	ObsStep  int    `json:"obs_step"` // index of the op's line in the observation files (shifted by inserted ops)
	Msg      string `json:"msg"`
}

// Result of running one history on the implementation.
type Result struct {
	Obs        []string // one line per op: "r 1=.. 2=.."
	Fails      []Fail
	Situations []string // interesting situations hit (for distribution accounting)
	// Inserted ops: after the op with index i (0-based), these ops are inserted into the history that
	// is given to the MODEL; they carry outputs of the implementation (e.g. a selection result to be
	// judged by the model's executable property checkers). Each comes with the line the Go side answers.
	Inserted map[int][]Inserted
	// key buffers handed to the implementation during the current op (see CallerKey)
	callerKeys [][]byte
	freeKeys   [][]byte
	shared     []byte
}

// CallerKey returns a copy of k in a buffer the CALLER owns, to be passed to the implementation as the key of ONE call. The caller is the
// kind that builds all its keys in one buffer: the next CallerKey overwrites the same memory with the next key (the previous call has
// returned by then), and Scribble fills it with garbage between two operations. An API taking []byte keys must not keep a reference to
// them; an implementation that aliases the caller's buffer (unsafe.String, storing or memoising the slice) then sees its stored key
// turn into another valid key or into garbage, and the next observations differ. Values are not treated this way: several components
// retain value slices by design.
func (r *Result) CallerKey(k []byte) []byte {
	if k == nil {
		return nil
	}
	if cap(r.shared) < len(k) {
		for i := range r.shared {
			r.shared[i] ^= 0xA5
		}
		r.shared = make([]byte, 0, len(k)+16)
	}
	r.shared = append(r.shared[:0], k...)
	return r.shared
}

// CallerKeyKept is CallerKey for calls that take SEVERAL keys at once: every key gets a buffer of its own, valid until the next Scribble.
func (r *Result) CallerKeyKept(k []byte) []byte {
	if k == nil {
		return nil
	}
	var c []byte
	for i := len(r.freeKeys) - 1; i >= 0; i-- {
		if cap(r.freeKeys[i]) >= len(k) {
			c = append(r.freeKeys[i][:0], k...)
			r.freeKeys = append(r.freeKeys[:i], r.freeKeys[i+1:]...)
			break
		}
	}
	if c == nil {
		c = append(make([]byte, 0, len(k)+8), k...)
	}
	r.callerKeys = append(r.callerKeys, c)
	return c
}

// Scribble overwrites every buffer handed out since the last call; the memory is used again for the keys of later calls.
func (r *Result) Scribble() {
	for i := range r.shared {
		r.shared[i] ^= 0xA5
	}
	for _, k := range r.callerKeys {
		for i := range k {
			k[i] ^= 0xA5
		}
		r.freeKeys = append(r.freeKeys, k)
	}
	if n := len(r.freeKeys); n > 8 {
		r.freeKeys = append(r.freeKeys[:0], r.freeKeys[n-8:]...)
	}
	r.callerKeys = r.callerKeys[:0]
}

// OwnKeys treats a key listing the implementation returned (Keys(), the hashes handed to an iteration handler) as the CALLER's
// property, the way a caller that derives other keys from the listing in place would: it returns a deep copy for the harness's own
// use, then appends to every slice of the original (an append into spare capacity must not reach another slice of the same listing:
// that is reported here) and overwrites every byte of it (a listing that aliases the implementation's state then shows in the next
// observation of that state).
func (r *Result) OwnKeys(prop string, step int, what string, keys [][]byte) [][]byte {
	cp := make([][]byte, len(keys))
	for i, k := range keys {
		if k != nil {
			cp[i] = append([]byte{}, k...)
		}
	}
	for i := range keys {
		if keys[i] == nil {
			continue
		}
		_ = append(keys[i], 0xE1, 0xE2, 0xE3, 0xE4, 0xE5, 0xE6, 0xE7, 0xE8)
		for j := range keys {
			if j != i && keys[j] != nil && j > i && !bytesEq(keys[j], cp[j]) {
				r.Failf(prop, step, "%s: appending to entry %d of the returned listing (%q) changed entry %d from %q to %q: the returned slices share one buffer", what, i, cp[i], j, cp[j], keys[j])
				copy(keys[j], cp[j])
			}
		}
	}
	for _, k := range keys {
		for i := range k {
			k[i] ^= 0x5A
		}
	}
	return cp
}

func bytesEq(a, b []byte) bool {
	if len(a) != len(b) {
		return false
	}
	for i := range a {
		if a[i] != b[i] {
			return false
		}
	}
	return true
}

// Keeper is a handler-side caller that KEEPS the slices an iteration hands to its handler (to act on them after the iteration) and
// later writes into them: both are legal for slices the library documents as copies. See() is called inside the handler.
type Keeper struct{ kept, copies [][]byte }

func (k *Keeper) See(b []byte) {
	k.kept = append(k.kept, b)
	k.copies = append(k.copies, append([]byte{}, b...))
}

// Done reports a kept slice that a LATER visit of the same iteration overwrote (one buffer reused for every visit), optionally
// overwrites every kept slice (the caller's scratch use), and returns the copies taken at the time of each visit.
func (k *Keeper) Done(r *Result, prop string, step int, what string, scribble bool) [][]byte {
	for i := range k.kept {
		if !bytesEq(k.kept[i], k.copies[i]) {
			r.Failf(prop, step, "%s: the slice handed to the handler at visit %d read %q then; after the iteration it reads %q (a later visit reused its memory)", what, i, k.copies[i], k.kept[i])
			break
		}
	}
	if scribble {
		for _, b := range k.kept {
			for i := range b {
				b[i] ^= 0x5A
			}
		}
	}
	return k.copies
}

// Inserted is an op inserted into the model's history, with the Go-side answer line.
type Inserted struct {
	Op  Op
	Obs string
}

// Insert registers an inserted op after step i.
func (r *Result) Insert(after int, op Op, obsToks ...string) {
	if r.Inserted == nil {
		r.Inserted = map[int][]Inserted{}
	}
	r.Inserted[after] = append(r.Inserted[after], Inserted{Op: op, Obs: strings.TrimSpace("r " + strings.Join(obsToks, " "))})
}

// AddObs appends an observation line built from labelled tokens.
func (r *Result) AddObs(toks ...string) {
	r.Obs = append(r.Obs, strings.TrimSpace("r "+strings.Join(toks, " ")))
}

// Hit records an interesting situation (deduplicated per history by the caller of Stats).
func (r *Result) Hit(s string) { r.Situations = append(r.Situations, s) }

// Failf records a monitor failure.
func (r *Result) Failf(prop string, step int, format string, a ...interface{}) {
	r.Fails = append(r.Fails, Fail{Property: prop, Step: step, Msg: fmt.Sprintf(format, a...)})
}

// Component is a driver for one modelled component.
type Component interface {
	Name() string
	// Gen produces the i-th random history for a property (every random choice from rng).
	Gen(prop string, rng *rand.Rand, tier string) *History
	// Exhaustive enumerates the small scope for a property (may yield nothing).
	Exhaustive(prop string, tier string, yield func(*History))
	// Run executes a history on the implementation built from /repo.
	Run(h *History, scratch string) *Result
}

// Extra is implemented by components that have checks which are not history based
// (sweeps, crash enumeration, forced schedules, stress).
type Extra interface {
	Extra(prop string, tier string, seed int64, scratch string) *ExtraResult
}

// ExtraResult is the outcome of an Extra check.
type ExtraResult struct {
	Evaluations int            `json:"evaluations"`
	Distinct    int            `json:"distinct"`
	Exhaustive  bool           `json:"exhaustive"`
	Rule        string         `json:"rule"`
	Samples     []string       `json:"samples"`
	Counts      map[string]int `json:"counts"`
	Fails       []Fail         `json:"fails"`
	// Replays holds, per failure, a self-contained description that the same Extra can re-run.
	Replays []string `json:"replays"`
}

var registry = map[string]Component{}

// Register adds a component.
func Register(c Component) { registry[c.Name()] = c }

// ---- CLI ----

type runStats struct {
	Histories   int            `json:"histories"`
	Ops         int            `json:"ops"`
	Distinct    int            `json:"distinct"`
	Nontrivial  int            `json:"distinct_nontrivial"`
	Situations  map[string]int `json:"situations"`
	OpCodes     map[string]int `json:"op_codes"`
	LengthHisto map[string]int `json:"length_histogram"`
	Fails       []Fail         `json:"fails"`
}

func flagMap(args []string) map[string]string {
	m := map[string]string{}
	for i := 0; i+1 < len(args); i += 2 {
		m[strings.TrimPrefix(args[i], "-")] = args[i+1]
	}
	return m
}

// Main is the entry point of the harness binary.
func Main() {
	if len(os.Args) < 2 {
		fmt.Fprintln(os.Stderr, "usage: harness gen|run|extra ...")
		os.Exit(2)
	}
	fl := flagMap(os.Args[2:])
	switch os.Args[1] {
	case "gen":
		cmdGen(fl)
	case "run":
		cmdRun(fl)
	case "extra":
		cmdExtra(fl)
	case "components":
		for n := range registry {
			fmt.Println(n)
		}
	default:
		fmt.Fprintln(os.Stderr, "unknown command")
		os.Exit(2)
	}
}

func mustComp(name string) Component {
	c, ok := registry[name]
	if !ok {
		fmt.Fprintln(os.Stderr, "unknown component", name)
		os.Exit(2)
	}
	return c
}

func cmdGen(fl map[string]string) {
	c := mustComp(fl["component"])
	seed, _ := strconv.ParseInt(fl["seed"], 10, 64)
	n, _ := strconv.Atoi(fl["n"])
	prop, tier := fl["prop"], fl["tier"]
	f, err := os.Create(fl["out"])
	if err != nil {
		panic(err)
	}
	w := bufio.NewWriterSize(f, 1<<20)
	count := 0
	if fl["exhaustive"] != "0" {
		c.Exhaustive(prop, tier, func(h *History) {
			h.ID = fmt.Sprintf("x%d", count)
			h.Component = c.Name()
			h.Write(w)
			count++
		})
	}
	nx := count
	rng := rand.New(rand.NewSource(seed))
	for i := 0; i < n; i++ {
		// one sub-seed per history so that a history can be regenerated alone
		sub := rng.Int63()
		h := c.Gen(prop, rand.New(rand.NewSource(sub)), tier)
		if h == nil {
			continue
		}
		h.ID = fmt.Sprintf("g%d", i)
		h.Component = c.Name()
		h.Write(w)
		count++
	}
	w.Flush()
	f.Close()
	fmt.Printf("{\"generated\": %d, \"exhaustive\": %d}\n", count, nx)
}

func cmdRun(fl map[string]string) {
	hs, err := ReadHistories(fl["in"])
	if err != nil {
		panic(err)
	}
	scratch := fl["scratch"]
	par, _ := strconv.Atoi(fl["par"])
	if par <= 0 {
		par = 8
	}
	results := make([]*Result, len(hs))
	histTimeout := 20 * time.Second
	if d, err := time.ParseDuration(fl["hist-timeout"]); err == nil && d > 0 {
		histTimeout = d
	}
	var hung atomic.Bool
	var hungCount atomic.Int32
	var wg sync.WaitGroup
	sem := make(chan struct{}, par)
	for i, h := range hs {
		wg.Add(1)
		sem <- struct{}{}
		go func(i int, h *History) {
			defer wg.Done()
			defer func() { <-sem }()
			c := mustComp(h.Component)
			sub := fmt.Sprintf("%s/h%d", scratch, i)
			// watchdog: a history that does not terminate (a loop in the implementation under test) is reported,
			// its goroutine is abandoned (the process exits after writing the results)
			if hungCount.Load() >= 3 {
				// several histories already hang: do not start more (each would burn a core until the time-out)
				r := &Result{}
				r.Obs = append(r.Obs, "r !skipped-after-hangs")
				results[i] = r
				return
			}
			done := make(chan *Result, 1)
			go func() { done <- safeRun(c, h, sub) }()
			var res *Result
			select {
			case res = <-done:
			// (20 s for an ordinary history; long ones get 100 ms per operation on top: an 1 800-operation history takes 7 s on an idle
			// machine and was cut off at 20 s under load, which raised an alarm on the unchanged tree in a thorough run)
			case <-time.After(histTimeout + time.Duration(len(h.Ops))*100*time.Millisecond):
				hung.Store(true)
				hungCount.Add(1)
				res = &Result{}
				res.Obs = append(res.Obs, "r !hang")
				res.Fails = append(res.Fails, Fail{Property: "*", Step: -1,
					Msg: fmt.Sprintf("history did not terminate within %s: an operation of the implementation (or the driver) hangs", histTimeout)})
			}
			_ = os.RemoveAll(sub)
			for k := range res.Fails {
				res.Fails[k].History = h.ID
				shift := 0
				for j := 0; j < res.Fails[k].Step; j++ {
					shift += len(res.Inserted[j])
				}
				res.Fails[k].ObsStep = res.Fails[k].Step + shift
				if res.Fails[k].Step < 0 {
					res.Fails[k].ObsStep = -1
				}
			}
			results[i] = res
		}(i, h)
	}
	wg.Wait()

	out, err := os.Create(fl["out"])
	if err != nil {
		panic(err)
	}
	w := bufio.NewWriterSize(out, 1<<20)
	augf, err := os.Create(fl["out"] + ".aug")
	if err != nil {
		panic(err)
	}
	aw := bufio.NewWriterSize(augf, 1<<20)
	st := runStats{Situations: map[string]int{}, OpCodes: map[string]int{}, LengthHisto: map[string]int{}}
	seen := map[string]bool{}
	seenNT := map[string]bool{}
	for i, h := range hs {
		fmt.Fprintf(w, "history %s\n", h.ID)
		aug := &History{ID: h.ID, Component: h.Component, Config: h.Config}
		for k, l := range results[i].Obs {
			fmt.Fprintln(w, l)
			if k < len(h.Ops) {
				aug.Ops = append(aug.Ops, h.Ops[k])
			}
			for _, ins := range results[i].Inserted[k] {
				fmt.Fprintln(w, ins.Obs)
				aug.Ops = append(aug.Ops, ins.Op)
			}
		}
		for k := len(results[i].Obs); k < len(h.Ops); k++ {
			aug.Ops = append(aug.Ops, h.Ops[k])
		}
		aug.Write(aw)
		st.Histories++
		st.Ops += len(h.Ops)
		for _, o := range h.Ops {
			st.OpCodes[strconv.Itoa(o.Code)]++
		}
		st.LengthHisto[strconv.Itoa((len(h.Ops)/10)*10)+"+"]++
		canon := h.Canon()
		if !seen[canon] {
			seen[canon] = true
			st.Distinct++
		}
		sit := map[string]bool{}
		for _, s := range results[i].Situations {
			sit[s] = true
		}
		for s := range sit {
			st.Situations[s]++
		}
		if len(sit) > 0 && !seenNT[canon] {
			seenNT[canon] = true
			st.Nontrivial++
		}
		st.Fails = append(st.Fails, results[i].Fails...)
	}
	w.Flush()
	out.Close()
	aw.Flush()
	augf.Close()
	js, _ := json.Marshal(st)
	if fl["stats"] != "" {
		_ = os.WriteFile(fl["stats"], js, 0o644)
	} else {
		fmt.Println(string(js))
	}
	if hung.Load() {
		os.Exit(0) // abandon the goroutines that never returned
	}
}

func safeRun(c Component, h *History, scratch string) (res *Result) {
	defer func() {
		if r := recover(); r != nil {
			res = &Result{}
			res.Obs = append(res.Obs, fmt.Sprintf("r !panic %v", r))
			res.Fails = append(res.Fails, Fail{Property: "*", Step: -1, Msg: fmt.Sprintf("panic in implementation or driver: %v", r)})
		}
	}()
	return c.Run(h, scratch)
}

func cmdExtra(fl map[string]string) {
	c := mustComp(fl["component"])
	e, ok := c.(Extra)
	if !ok {
		fmt.Println("{}")
		return
	}
	seed, _ := strconv.ParseInt(fl["seed"], 10, 64)
	res := e.Extra(fl["prop"], fl["tier"], seed, fl["scratch"])
	if res == nil {
		res = &ExtraResult{}
	}
	js, _ := json.Marshal(res)
	if fl["out"] != "" {
		_ = os.WriteFile(fl["out"], js, 0o644)
	} else {
		fmt.Println(string(js))
	}
}

// ---- small generator helpers ----

// Pick returns a random element.
func Pick[T any](rng *rand.Rand, xs []T) T { return xs[rng.Intn(len(xs))] }

// Chance returns true with probability num/den.
func Chance(rng *rand.Rand, num, den int) bool { return rng.Intn(den) < num }

// NilValue is the wire representation of the UNTYPED nil value handed to a cache (Put(key, nil, size): a cache used as a set).
// The models treat values as opaque byte strings, so a reserved byte string stands for it; ToValue / FromValue translate at the
// boundary of the implementation.
var NilValue = []byte{0x00, 'n', 'i', 'l'}

// ToValue turns a wire value into what is passed to the implementation.
func ToValue(b []byte) interface{} {
	if bytes.Equal(b, NilValue) {
		return nil
	}
	return b
}

// FromValue turns a value returned by the implementation (found) into its wire form; ok=false if it is neither nil nor a []byte.
func FromValue(v interface{}) ([]byte, bool) {
	if v == nil {
		return NilValue, true
	}
	b, ok := v.([]byte)
	return b, ok
}

// LongKeys returns keys of several hundred bytes that share a long common prefix: two differ only in their last byte, one is a strict
// prefix of the others, one ends in 0x00, one in 0xff; the prefix contains 0x00, 0x80 and 0xff bytes. Small alphabets of one- and
// two-byte keys never exercise code that treats long keys, key length or particular byte values specially.
func LongKeys() [][]byte {
	p := make([]byte, 300)
	for i := range p {
		p[i] = byte(i*7 + 3)
	}
	p[0], p[100], p[200], p[299] = 0x00, 0x80, 0xff, 0x41
	mk := func(n int, last ...byte) []byte { return append(append([]byte{}, p[:n]...), last...) }
	return [][]byte{mk(300, 'A'), mk(300, 'B'), mk(300), mk(300, 0x00), mk(300, 0xff)}
}

// WithLongKeys replaces, in one history out of `oneIn`, the last min(3, len-1) keys of the alphabet by long keys.
func WithLongKeys(rng *rand.Rand, keys [][]byte, oneIn int) [][]byte {
	if len(keys) < 3 || rng.Intn(oneIn) != 0 {
		return keys
	}
	out := append([][]byte{}, keys...)
	lk := LongKeys()
	rng.Shuffle(len(lk), func(i, j int) { lk[i], lk[j] = lk[j], lk[i] })
	n := 3
	if len(out)-1 < n {
		n = len(out) - 1
	}
	for i := 0; i < n; i++ {
		out[len(out)-1-i] = lk[i]
	}
	return out
}

// LongValue is a value of a thousand bytes (with 0x00 / 0xff inside).
func LongValue() []byte {
	v := make([]byte, 1000)
	for i := range v {
		v[i] = byte(i * 13)
	}
	v[0], v[999] = 0xff, 0x00
	return v
}

// LongHistory multiplies the number of operations by 6 in one history out of 40.
func LongHistory(rng *rand.Rand, nops int) int {
	if rng.Intn(40) == 0 {
		return nops * 6
	}
	return nops
}
