// Package adapter drives storageCacherAdapter.NewStorageCacherAdapter over the real capacityLRU
// (capacity.NewCapacityLRU) and the real memorydb persister, for property C17.
//
// History format (see coq/theories/Lru/AdapterComp.v):
//
//	config cap maxBytes [ keys ]
//	o 1 key value size Put   o 2 key Get   o 3 key Has   o 4 key Peek   o 5 key Remove   o 6 Clear
//	o 7 key value size HasOrAdd   o 8 Close   o 9 SizeInBytesContained   o 10 MaxSize
//
// Harness-side stubs that make a value a byte string:
//   - values are *blob, which implements types.SerializedStoredData (GetSerialized/SetSerialized = the
//     byte string), so storageCacherAdapter.getBytes never calls the marshaller;
//   - the StoredDataFactory creates an empty *blob, so getData fills it with SetSerialized;
//   - the marshaller is a stub that records a monitor failure if it is ever called.
//
// The persister is memorydb.New() wrapped in a recorder that only counts and forwards (to observe
// which keys a Put wrote); its contents are read directly (Get/RangeKeys on the memorydb).
package adapter

import (
	"bytes"
	"errors"
	"fmt"
	"math"
	"math/rand"
	"sort"

	logger "github.com/multiversx/mx-chain-logger-go"
	"github.com/multiversx/mx-chain-storage-go/lrucache/capacity"
	"github.com/multiversx/mx-chain-storage-go/memorydb"
	"github.com/multiversx/mx-chain-storage-go/storageCacherAdapter"
	"github.com/multiversx/mx-chain-storage-go/types"
	"verifharness/core"
)

type comp struct{}

func init() {
	core.Register(comp{})
	// the caches log every rejected negative size at ERROR level: silence the logger (output only, no behaviour)
	_ = logger.SetLogLevel("*:NONE")
}

func (comp) Name() string { return "adapter" }

const (
	opPut = iota + 1
	opGet
	opHas
	opPeek
	opRemove
	opClear
	opHasOrAdd
	opClose
	opSize
	opMaxSize
)

// ---- stubs

type blob struct{ b []byte }

func (x *blob) GetSerialized() []byte  { return x.b }
func (x *blob) SetSerialized(b []byte) { x.b = b }

type blobFactory struct{}

func (blobFactory) CreateEmpty() interface{} { return &blob{} }
func (blobFactory) IsInterfaceNil() bool     { return false }

// plain does NOT implement types.SerializedStoredData: such values go through the marshalizer (getBytes / getData fall back to
// Marshal / Unmarshal). The marshalizer below is the identity on the payload, so the model's byte strings are unchanged.
type plain struct{ B []byte }

type plainFactory struct{}

func (plainFactory) CreateEmpty() interface{} { return &plain{} }
func (plainFactory) IsInterfaceNil() bool     { return false }

type payloadMarshaller struct{}

func (payloadMarshaller) Marshal(obj interface{}) ([]byte, error) {
	p, ok := obj.(*plain)
	if !ok {
		return nil, errors.New("payload marshaller: not a *plain")
	}
	return append([]byte{}, p.B...), nil
}
func (payloadMarshaller) Unmarshal(obj interface{}, buff []byte) error {
	p, ok := obj.(*plain)
	if !ok {
		return errors.New("payload marshaller: not a *plain")
	}
	p.B = append([]byte{}, buff...)
	return nil
}
func (payloadMarshaller) IsInterfaceNil() bool { return false }

type noMarshaller struct{ used *bool }

func (m noMarshaller) Marshal(obj interface{}) ([]byte, error) {
	*m.used = true
	return nil, errors.New("marshaller stub")
}
func (m noMarshaller) Unmarshal(obj interface{}, buff []byte) error {
	*m.used = true
	return errors.New("marshaller stub")
}
func (m noMarshaller) IsInterfaceNil() bool { return false }

// recorder forwards to the memorydb and remembers the keys written since the last reset
type recorder struct {
	*memorydb.DB
	written []string
}

func (r *recorder) Put(key, val []byte) error {
	r.written = append(r.written, string(key))
	return r.DB.Put(key, val)
}
func (r *recorder) IsInterfaceNil() bool { return r == nil }

var _ types.Persister = (*recorder)(nil)

// ---- generation

var allKeys = [][]byte{[]byte("a"), []byte("b"), []byte("c"), []byte("aa"), []byte("d"), []byte("e")}

// each key is bound to one immutable value; "e" is bound to the empty value (skipped by design, exempt)
func valueOf(k []byte) []byte {
	if string(k) == "e" {
		return []byte{}
	}
	return append([]byte("v-"), k...)
}

func setConfig(h *core.History, capacity int, maxBytes int64, keys [][]byte) {
	h.SetConfig(core.N(uint64(capacity)), core.N(uint64(maxBytes)), core.LB(keys))
}

func addPut(h *core.History, k []byte, sz int64) {
	h.Add(opPut, fmt.Sprintf("Put(%s,%d)", k, sz), core.B(k), core.B(valueOf(k)), core.I(sz))
}

func addHasOrAdd(h *core.History, k []byte, sz int64) {
	h.Add(opHasOrAdd, fmt.Sprintf("HasOrAdd(%s,%d)", k, sz), core.B(k), core.B(valueOf(k)), core.I(sz))
}

func addPlain(h *core.History, code int) {
	names := map[int]string{opClear: "Clear", opClose: "Close", opSize: "SizeInBytesContained", opMaxSize: "MaxSize"}
	h.Add(code, names[code])
}

func addKeyOp(h *core.History, code int, k []byte) {
	names := map[int]string{opGet: "Get", opHas: "Has", opPeek: "Peek", opRemove: "Remove"}
	h.Add(code, fmt.Sprintf("%s(%s)", names[code], k), core.B(k))
}

func (comp) Gen(prop string, rng *rand.Rand, tier string) *core.History {
	h := &core.History{}
	capacity := core.Pick(rng, []int{1, 2, 3, 3, 5})
	maxBytes := core.Pick(rng, []int64{1, 50, 100, 100, 1 << 40})
	nkeys := 3 + rng.Intn(3) // never "e" ...
	if core.Chance(rng, 1, 6) {
		nkeys = 6 // ... except in one history out of six: the empty value
	}
	keys := core.WithLongKeys(rng, allKeys[:nkeys], 10)
	if core.Chance(rng, 1, 8) {
		keys = append([][]byte{{}}, keys[1:]...) // the empty key: legal for the LRU tier and for every persister
	}
	setConfig(h, capacity, maxBytes, keys)
	sizes := []int64{0, 10, 40, 40, 90, 150}
	if core.Chance(rng, 1, 12) {
		sizes = append(sizes, 1<<31, 1<<32, 1<<32+5) // edge of the 32-bit range
	}
	hostile := core.Chance(rng, 1, 8)    // negative sizes (rejected by the LRU; outside C17's domain)
	withRemove := core.Chance(rng, 1, 6) // Remove / Clear (outside C17's domain; the monitor forgets the keys)
	nops := core.LongHistory(rng, 15+rng.Intn(36))
	// Close (the property is about an OPEN persister; what Close does is stated in Props/C17.v): in one
	// history out of five, at a random point; the history goes on after it (and may close again)
	closeAt := -1
	if core.Chance(rng, 1, 5) {
		closeAt = 3 + rng.Intn(nops-3)
	}
	for i := 0; i < nops; i++ {
		k := core.Pick(rng, keys)
		r := rng.Intn(100)
		if i == closeAt || (closeAt >= 0 && i > closeAt && core.Chance(rng, 1, 25)) {
			addPlain(h, opClose)
			continue
		}
		switch {
		case r < 40:
			sz := core.Pick(rng, sizes)
			if hostile && core.Chance(rng, 1, 6) {
				sz = -1
			}
			addPut(h, k, sz)
		case r < 55:
			sz := core.Pick(rng, sizes)
			if hostile && core.Chance(rng, 1, 6) {
				sz = -1
			}
			addHasOrAdd(h, k, sz)
		case r < 58:
			if core.Chance(rng, 1, 3) {
				addPlain(h, opMaxSize)
			} else {
				addPlain(h, opSize)
			}
		case r < 70:
			addKeyOp(h, opGet, k)
		case r < 80:
			addKeyOp(h, opHas, k)
		case r < 90:
			addKeyOp(h, opPeek, k)
		default:
			if withRemove {
				if core.Chance(rng, 1, 4) {
					addPlain(h, opClear)
				} else {
					addKeyOp(h, opRemove, k)
				}
			} else {
				addPut(h, k, core.Pick(rng, sizes))
			}
		}
	}
	return h
}

type xop struct {
	code int
	k    []byte
	sz   int64
}

// Exhaustive: every sequence of a fixed length over two alphabets of op instances on 3 keys, three
// configurations: 10 instances of Put/Get/Has/Peek; 8 instances with HasOrAdd and Close.
func (comp) Exhaustive(prop string, tier string, yield func(*core.History)) {
	a, b, c := []byte("a"), []byte("b"), []byte("c")
	exhaustiveOver([]xop{
		{opPut, a, 40}, {opPut, b, 40}, {opPut, c, 40}, {opPut, a, 90}, {opPut, b, 150}, {opPut, c, 0},
		{opGet, a, 0}, {opGet, b, 0}, {opHas, c, 0}, {opPeek, a, 0}}, tier, yield)
	exhaustiveOver([]xop{
		{opHasOrAdd, a, 40}, {opHasOrAdd, b, 40}, {opHasOrAdd, c, 40}, {opPut, a, 40}, {opPut, b, 90},
		{opClose, nil, 0}, {opGet, a, 0}, {opHas, a, 0}}, tier, yield)
}

func exhaustiveOver(ops []xop, tier string, yield func(*core.History)) {
	a, b, c := []byte("a"), []byte("b"), []byte("c")
	keys := [][]byte{a, b, c}
	type scope struct {
		capacity int
		maxBytes int64
	}
	length := 4
	if tier == "thorough" {
		length = 5
	}
	for _, sc := range []scope{{2, 100}, {1, 50}, {3, 100}} {
		idx := make([]int, length)
		for {
			h := &core.History{}
			setConfig(h, sc.capacity, sc.maxBytes, keys)
			for _, i := range idx {
				x := ops[i]
				switch x.code {
				case opPut:
					addPut(h, x.k, x.sz)
				case opHasOrAdd:
					addHasOrAdd(h, x.k, x.sz)
				case opClose:
					addPlain(h, opClose)
				default:
					addKeyOp(h, x.code, x.k)
				}
			}
			yield(h)
			p := length - 1
			for p >= 0 {
				idx[p]++
				if idx[p] < len(ops) {
					break
				}
				idx[p] = 0
				p--
			}
			if p < 0 {
				break
			}
		}
	}
}

// ---- run

func blobBytes(v interface{}, ok bool) ([]byte, bool) {
	if !ok {
		return nil, false
	}
	if p, isPlain := v.(*plain); isPlain && p != nil {
		if p.B == nil {
			return []byte{}, true
		}
		return p.B, true
	}
	x, isBlob := v.(*blob)
	if !isBlob || x == nil {
		return nil, false
	}
	if x.b == nil {
		return []byte{}, true
	}
	return x.b, true
}

func ob(v []byte, ok bool) string {
	if !ok {
		return "-"
	}
	return core.B(v)
}

func sameKeys(x, y []interface{}) bool {
	if len(x) != len(y) {
		return false
	}
	for i := range x {
		if x[i].(string) != y[i].(string) {
			return false
		}
	}
	return true
}

func errClassOf(err error) uint64 {
	if err == nil {
		return 0
	}
	return 1
}

func keySet(ks []interface{}) map[string]bool {
	m := map[string]bool{}
	for _, k := range ks {
		m[k.(string)] = true
	}
	return m
}

func (comp) Run(h *core.History, scratch string) *core.Result {
	res := &core.Result{}
	cfg := core.ParseArgs(h.Config)
	capacity0, maxBytes := cfg[0].Int(), cfg[1].I64()
	var alpha [][]byte
	for _, a := range cfg[2].List {
		alpha = append(alpha, a.Bytes())
	}
	cacher, err := capacity.NewCapacityLRU(capacity0, maxBytes)
	if err != nil {
		res.Obs = append(res.Obs, "init-rejected")
		return res
	}
	mdb := memorydb.New()
	rec := &recorder{DB: mdb}
	marshUsed := false
	// one configuration in five (byte capacity 50) stores values that go through the marshalizer instead of SerializedStoredData
	usePlain := maxBytes == 50
	mkval := func(v []byte) interface{} {
		if usePlain {
			return &plain{B: v}
		}
		return &blob{b: v}
	}
	var ad types.Cacher
	if usePlain {
		ad, err = storageCacherAdapter.NewStorageCacherAdapter(cacher, rec, plainFactory{}, payloadMarshaller{})
		res.Hit("values-through-the-marshalizer")
	} else {
		ad, err = storageCacherAdapter.NewStorageCacherAdapter(cacher, rec, blobFactory{}, noMarshaller{&marshUsed})
	}
	if err != nil {
		res.Obs = append(res.Obs, "init-rejected")
		return res
	}

	type keptGet struct {
		obj  interface{}
		want []byte
		key  string
		step int
	}
	var keptGets []keptGet
	// the monitor's own bookkeeping, from the text of C17: key -> value for "every key put so far"
	putSoFar := map[string][]byte{}
	everSpilled := map[string]bool{}
	lastSize := map[string]int64{} // size of the latest accepted Put per key (situation accounting only)
	closed := false                // a Close was executed (the harness's own knowledge, not read from the adapter)
	var atClose map[string][]byte  // persister contents when Close was first called
	persisterContents := func() map[string][]byte {
		m := map[string][]byte{}
		mdb.RangeKeys(func(k, v []byte) bool {
			m[string(k)] = append([]byte{}, v...)
			return true
		})
		return m
	}

	persisted := func(k string) ([]byte, bool) {
		v, err := mdb.Get([]byte(k))
		if err != nil {
			return nil, false
		}
		return v, true
	}

	// what a Put (or the Put inside an inserting HasOrAdd) must have done; flag = its return value
	putEffects := func(name string, i int, k, v []byte, sz int64, flag, wasInDB bool, memBefore map[string]bool, valBefore map[string][]byte) {
		if sz >= 0 {
			if len(v) > 0 && !closed {
				putSoFar[string(k)] = v
			}
			if prev, ok := lastSize[string(k)]; ok && memBefore[string(k)] {
				if sz > prev {
					res.Hit("re-put-grow")
				} else if sz < prev {
					res.Hit("re-put-shrink")
				}
			}
			lastSize[string(k)] = sz
			if !memBefore[string(k)] && wasInDB {
				res.Hit("re-put-of-spilled-key")
			}
			if memBefore[string(k)] {
				res.Hit("re-put-of-resident-key")
			}
			if sz > maxBytes {
				res.Hit("oversized-single-item")
			}
		} else {
			res.Hit("put-rejected-negative-size")
		}
		// C17: "Put's return value says whether anything was spilled"
		memAfter := keySet(cacher.Keys())
		left, leftNonEmpty := 0, 0
		for kk := range memBefore {
			if !memAfter[kk] {
				left++
				if len(valBefore[kk]) > 0 {
					leftNonEmpty++
				} else {
					res.Hit("empty-value-skipped")
				}
			}
		}
		if flag != (left > 0) {
			res.Failf("C17", i, "%s(%s,%d) returned %v although %d entries left the memory tier", name, k, sz, flag, left)
		}
		if closed {
			// Put after Close: "return len(evictedValues) != 0" WITHOUT spilling
			if len(rec.written) > 0 {
				res.Failf("C17", i, "%s(%s,%d) after Close wrote %d entries to the persister", name, k, sz, len(rec.written))
			}
			if left > 0 {
				res.Hit("evicted-after-close-dropped")
			}
			return
		}
		if left == leftNonEmpty && flag != (len(rec.written) > 0) {
			res.Failf("C17", i, "%s(%s,%d) returned %v although it wrote %d entries to the persister", name, k, sz, flag, len(rec.written))
		}
		if left > 0 {
			res.Hit("spill")
			if left > 1 {
				res.Hit("spill-of-several")
			}
			if memBefore[string(k)] {
				res.Hit("re-put-larger-spills")
			}
			if name == "HasOrAdd" {
				res.Hit("hasoradd-spills")
			}
		}
	}

	for i, op := range h.Ops {
		res.Scribble() // the key buffers handed to the previous call are reused by their caller
		a := op.Parsed()
		var toks []string
		keysBefore := cacher.Keys()
		memBefore := keySet(keysBefore)
		valBefore := map[string][]byte{}
		for k := range memBefore {
			v, _ := blobBytes(cacher.Peek(k))
			valBefore[k] = v
		}
		rec.written = nil
		switch op.Code {
		case opPut:
			k, v, sz := a[0].Bytes(), a[1].Bytes(), a[2].I64()
			_, wasInDB := persisted(string(k))
			flag := ad.Put(res.CallerKey(k), mkval(v), int(sz))
			toks = append(toks, core.Lbl(1, core.Bool(flag)))
			putEffects("Put", i, k, v, sz, flag, wasInDB, memBefore, valBefore)
		case opHasOrAdd:
			k, v, sz := a[0].Bytes(), a[1].Bytes(), a[2].I64()
			_, wasInDB := persisted(string(k))
			has, added := ad.HasOrAdd(res.CallerKey(k), mkval(v), int(sz))
			toks = append(toks, core.Lbl(4, core.Bool(has)), core.Lbl(7, core.L(core.Bool(has), core.Bool(added))))
			// "checks if the value exists": the first flag says whether the key was in one of the tiers the
			// adapter consults (the memory tier; the persister while it is open)
			present := memBefore[string(k)] || (wasInDB && !closed)
			if has != present {
				res.Failf("C17", i, "HasOrAdd(%s,%d) returned has=%v although in memory=%v, in the persister=%v, closed=%v", k, sz, has, memBefore[string(k)], wasInDB, closed)
			}
			if has {
				// nothing is added, nothing moves
				if added {
					res.Failf("C17", i, "HasOrAdd(%s,%d) returned (has=true, added=true)", k, sz)
				}
				if len(rec.written) > 0 || !sameKeys(keysBefore, cacher.Keys()) {
					res.Failf("C17", i, "HasOrAdd(%s,%d) of a present key changed the memory tier or wrote to the persister", k, sz)
				}
				if memBefore[string(k)] {
					res.Hit("hasoradd-present-in-memory")
				} else {
					res.Hit("hasoradd-present-in-persister")
				}
				if sz >= 0 && len(v) > 0 && !closed {
					putSoFar[string(k)] = v // the key was handed to HasOrAdd and is there: it must stay
				}
			} else {
				// "and adds it otherwise": the entry is in the memory tier afterwards; the second flag is
				// Put's return value ("says whether anything was spilled")
				if sz >= 0 {
					if pv, ok := blobBytes(cacher.Peek(string(k))); !ok || !bytes.Equal(pv, v) {
						res.Failf("C17", i, "HasOrAdd(%s,%d) returned has=false but the entry is not in the memory tier afterwards: Peek = (%x,%v)", k, sz, pv, ok)
					}
					res.Hit("hasoradd-inserted")
					if !added {
						res.Hit("hasoradd-inserted-but-added-false") // FINDING: "added" is the spill flag
					}
				}
				putEffects("HasOrAdd", i, k, v, sz, added, wasInDB, memBefore, valBefore)
			}
		case opClose:
			if !closed {
				atClose = persisterContents()
				res.Hit("close")
				if len(atClose) > 0 {
					res.Hit("close-with-spilled-entries")
				}
			} else {
				res.Hit("close-again")
			}
			err := ad.Close()
			closed = true
			toks = append(toks, core.Lbl(8, core.N(errClassOf(err))))
			if err != nil {
				res.Failf("C17", i, "Close returned %v (memorydb.Close never fails)", err)
			}
			if !sameKeys(keysBefore, cacher.Keys()) {
				res.Failf("C17", i, "Close changed the memory tier")
			}
		case opSize:
			n := ad.SizeInBytesContained()
			toks = append(toks, core.Lbl(9, core.N(n)))
			if n != cacher.SizeInBytesContained() {
				res.Failf("C17", i, "SizeInBytesContained() = %d, the memory tier says %d", n, cacher.SizeInBytesContained())
			}
		case opMaxSize:
			n := ad.MaxSize()
			toks = append(toks, core.Lbl(18, core.N(uint64(n))))
			if n != math.MaxInt64 {
				res.Failf("C17", i, "MaxSize() = %d, not math.MaxInt64", n)
			}
		case opGet:
			k := a[0].Bytes()
			gobj, gok := ad.Get(k)
			v, ok := blobBytes(gobj, gok)
			if ok {
				// the caller KEEPS what Get returned (to use it after further reads): it is checked again after every later operation
				keptGets = append(keptGets, keptGet{obj: gobj, want: append([]byte{}, v...), key: string(k), step: i})
				if len(keptGets) > 6 {
					keptGets = keptGets[1:]
				}
			}
			toks = append(toks, core.Lbl(2, ob(v, ok)), core.Lbl(3, core.Bool(ok)))
			if want, was := putSoFar[string(k)]; was && !closed {
				if !ok || !bytes.Equal(v, want) {
					res.Failf("C17", i, "Get(%s) = (%x,%v) although the key was put with value %x", k, v, ok, want)
				}
				if !memBefore[string(k)] {
					res.Hit("get-from-persister")
				}
			}
			if closed {
				// after Close: found exactly when in the memory tier (the closed persister is skipped)
				if ok != memBefore[string(k)] || (ok && !bytes.Equal(v, valBefore[string(k)])) {
					res.Failf("C17", i, "Get(%s) after Close = (%x,%v) although in the memory tier=%v", k, v, ok, memBefore[string(k)])
				}
				if _, inDB := persisted(string(k)); inDB && !ok {
					res.Hit("get-after-close-skips-persister")
				}
			}
		case opHas:
			k := a[0].Bytes()
			has := ad.Has(k)
			toks = append(toks, core.Lbl(4, core.Bool(has)))
			if _, was := putSoFar[string(k)]; was && !has && !closed {
				res.Failf("C17", i, "Has(%s) = false although the key was put", k)
			}
			if closed && has != memBefore[string(k)] {
				res.Failf("C17", i, "Has(%s) after Close = %v although in the memory tier=%v", k, has, memBefore[string(k)])
			}
		case opPeek:
			k := a[0].Bytes()
			v, ok := blobBytes(ad.Peek(k))
			toks = append(toks, core.Lbl(5, ob(v, ok)), core.Lbl(6, core.Bool(ok)))
		case opRemove:
			k := a[0].Bytes()
			ad.Remove(k)
			delete(putSoFar, string(k)) // outside C17: the key is no longer "put so far"
			res.Hit("remove")
		case opClear:
			ad.Clear()
			for kk := range memBefore { // outside C17: Clear drops the memory tier without spilling
				if _, inDB := persisted(kk); !inDB {
					delete(putSoFar, kk)
				}
			}
			res.Hit("clear")
		}

		// ---- observables
		ckeys := cacher.Keys()
		memAfter := keySet(ckeys)
		ktoks := make([]string, len(ckeys))
		for j, k := range ckeys {
			ktoks[j] = core.B([]byte(k.(string)))
		}
		type kv struct{ k, v []byte }
		var content []kv
		mdb.RangeKeys(func(k, v []byte) bool {
			content = append(content, kv{append([]byte{}, k...), append([]byte{}, v...)})
			return true
		})
		sort.Slice(content, func(x, y int) bool { return bytes.Compare(content[x].k, content[y].k) < 0 })
		ctoks := make([]string, len(content))
		for j, c := range content {
			ctoks[j] = core.L(core.B(c.k), core.B(c.v))
		}
		peeks := make([]string, len(alpha))
		hass := make([]string, len(alpha))
		for j, k := range alpha {
			v, ok := blobBytes(ad.Peek(k))
			peeks[j] = ob(v, ok)
			hass[j] = core.Bool(ad.Has(k))
		}
		toks = append(toks,
			core.Lbl(10, core.L(ktoks...)), core.Lbl(11, core.N(uint64(cacher.Len()))), core.Lbl(12, core.N(cacher.SizeInBytesContained())),
			core.Lbl(13, core.L(ctoks...)), core.Lbl(14, core.L(peeks...)), core.Lbl(15, core.L(hass...)),
			core.Lbl(16, core.I(int64(ad.Len()))), core.Lbl(17, core.SortedLB(ad.Keys())), core.Lbl(19, core.Bool(closed)))
		res.AddObs(toks...)

		// ---- monitors (text of C17)
		// "every key put so far is still reported by Has and returned by Get with its value, whether it lives
		// in the bounded in-memory tier or has been spilled" (Get itself refreshes recency, so between Get
		// operations the two tiers are read without side effect: Peek, then the persister)
		if closed {
			// What Close does (Props/C17.v, not the property text, which is about an open persister): the
			// persister is never touched again; Has / Keys answer from the memory tier alone; a key that
			// is not in the memory tier is not found even when the persister holds it.
			now := persisterContents()
			if len(now) != len(atClose) {
				res.Failf("C17", i, "the persister changed after Close: %d entries, %d at Close", len(now), len(atClose))
			}
			for k, v := range atClose {
				if w, ok := now[k]; !ok || !bytes.Equal(v, w) {
					res.Failf("C17", i, "the persister changed after Close: key %s", k)
				}
			}
			for _, k := range alpha {
				if has := ad.Has(k); has != memAfter[string(k)] {
					res.Failf("C17", i, "after Close Has(%s) = %v although in the memory tier=%v", k, has, memAfter[string(k)])
				}
				if _, inDB := now[string(k)]; inDB && !memAfter[string(k)] {
					res.Hit("spilled-key-not-found-after-close")
				}
			}
			if got := ad.Keys(); len(got) != len(ckeys) {
				res.Failf("C17", i, "after Close Keys() has %d keys, the memory tier %d", len(got), len(ckeys))
			}
			// the keys put so far that are still in the memory tier keep their value
			for k, want := range putSoFar {
				if !memAfter[k] {
					delete(putSoFar, k) // lost or unreachable: outside the property (closed persister)
					continue
				}
				if v, ok := blobBytes(ad.Peek([]byte(k))); !ok || !bytes.Equal(v, want) {
					res.Failf("C17", i, "after Close key %s is in the memory tier with (%x,%v), put with value %x", k, v, ok, want)
				}
			}
		}
		for k, want := range putSoFar {
			if !ad.Has([]byte(k)) {
				res.Failf("C17", i, "Has(%s) = false although the key was put (value %x)", k, want)
			}
			v, ok := blobBytes(ad.Peek([]byte(k)))
			if !ok {
				v, ok = persisted(k)
			}
			if !ok || !bytes.Equal(v, want) {
				res.Failf("C17", i, "key %s (put with value %x) is in neither tier with its value: found (%x,%v)", k, want, v, ok)
			}
		}
		// "Entries leave the memory tier only by being written to the persister first"
		if op.Code != opRemove && op.Code != opClear && !closed {
			for k := range memBefore {
				if memAfter[k] || len(valBefore[k]) == 0 {
					continue
				}
				everSpilled[k] = true
				if v, ok := persisted(k); !ok || !bytes.Equal(v, valBefore[k]) {
					res.Failf("C17", i, "entry %s (value %x) left the memory tier but the persister holds (%x,%v)", k, valBefore[k], v, ok)
				}
			}
		}
		for _, kg := range keptGets {
			if now, ok := blobBytes(kg.obj, true); !ok || !bytes.Equal(now, kg.want) {
				res.Failf("C17", i, "the object Get(%s) returned at step %d read %x then; it now reads %x (a later read reuses the object handed out earlier)", kg.key, kg.step, kg.want, now)
				keptGets = nil
				break
			}
		}
		if marshUsed {
			res.Failf("*", i, "the marshaller stub was called: values are not handled as SerializedStoredData")
			marshUsed = false
		}
	}
	// end of history: Get of every key put so far (recency no longer matters)
	for k, want := range putSoFar {
		v, ok := blobBytes(ad.Get([]byte(k)))
		if !ok || !bytes.Equal(v, want) {
			res.Failf("C17", len(h.Ops)-1, "final Get(%s) = (%x,%v) although the key was put with value %x", k, v, ok, want)
		}
	}
	return res
}
