// Package adapter drives storageCacherAdapter.NewStorageCacherAdapter over the real capacityLRU
// (capacity.NewCapacityLRU) and the real memorydb persister, for property C17.
//
// History format (see coq/theories/Lru/AdapterComp.v):
//
//	config cap maxBytes [ keys ]
//	o 1 key value size Put   o 2 key Get   o 3 key Has   o 4 key Peek   o 5 key Remove   o 6 Clear
//
// Harness-side stubs that make a value a byte string:
//   - values are *blob, which implements types.SerializedStoredData (GetSerialized/SetSerialized = the
//     byte string), so storageCacherAdapter.getBytes never calls the marshaller;
//   - the StoredDataFactory creates an empty *blob, so getData fills it with SetSerialized;
//   - the marshaller is a stub that records a monitor failure if it is ever called.
//
// The persister is memorydb.New() wrapped in a recorder that only counts and forwards (to observe
// which keys a Put wrote); its contents are read directly (Get/RangeKeys on the memorydb).
package adapter

import (
	"bytes"
	"errors"
	"fmt"
	"math/rand"
	"sort"

	logger "github.com/multiversx/mx-chain-logger-go"
	"github.com/multiversx/mx-chain-storage-go/lrucache/capacity"
	"github.com/multiversx/mx-chain-storage-go/memorydb"
	"github.com/multiversx/mx-chain-storage-go/storageCacherAdapter"
	"github.com/multiversx/mx-chain-storage-go/types"
	"verifharness/core"
)

type comp struct{}

func init() {
	core.Register(comp{})
	// the caches log every rejected negative size at ERROR level: silence the logger (output only, no behaviour)
	_ = logger.SetLogLevel("*:NONE")
}

func (comp) Name() string { return "adapter" }

const (
	opPut = iota + 1
	opGet
	opHas
	opPeek
	opRemove
	opClear
)

// ---- stubs

type blob struct{ b []byte }

func (x *blob) GetSerialized() []byte  { return x.b }
func (x *blob) SetSerialized(b []byte) { x.b = b }

type blobFactory struct{}

func (blobFactory) CreateEmpty() interface{} { return &blob{} }
func (blobFactory) IsInterfaceNil() bool     { return false }

type noMarshaller struct{ used *bool }

func (m noMarshaller) Marshal(obj interface{}) ([]byte, error) {
	*m.used = true
	return nil, errors.New("marshaller stub")
}
func (m noMarshaller) Unmarshal(obj interface{}, buff []byte) error {
	*m.used = true
	return errors.New("marshaller stub")
}
func (m noMarshaller) IsInterfaceNil() bool { return false }

// recorder forwards to the memorydb and remembers the keys written since the last reset
type recorder struct {
	*memorydb.DB
	written []string
}

func (r *recorder) Put(key, val []byte) error {
	r.written = append(r.written, string(key))
	return r.DB.Put(key, val)
}
func (r *recorder) IsInterfaceNil() bool { return r == nil }

var _ types.Persister = (*recorder)(nil)

// ---- generation

var allKeys = [][]byte{[]byte("a"), []byte("b"), []byte("c"), []byte("aa"), []byte("d"), []byte("e")}

// each key is bound to one immutable value; "e" is bound to the empty value (skipped by design, exempt)
func valueOf(k []byte) []byte {
	if string(k) == "e" {
		return []byte{}
	}
	return append([]byte("v-"), k...)
}

func setConfig(h *core.History, capacity int, maxBytes int64, keys [][]byte) {
	h.SetConfig(core.N(uint64(capacity)), core.N(uint64(maxBytes)), core.LB(keys))
}

func addPut(h *core.History, k []byte, sz int64) {
	h.Add(opPut, fmt.Sprintf("Put(%s,%d)", k, sz), core.B(k), core.B(valueOf(k)), core.I(sz))
}

func addKeyOp(h *core.History, code int, k []byte) {
	names := map[int]string{opGet: "Get", opHas: "Has", opPeek: "Peek", opRemove: "Remove"}
	h.Add(code, fmt.Sprintf("%s(%s)", names[code], k), core.B(k))
}

func (comp) Gen(prop string, rng *rand.Rand, tier string) *core.History {
	h := &core.History{}
	capacity := core.Pick(rng, []int{1, 2, 3, 3, 5})
	maxBytes := core.Pick(rng, []int64{1, 50, 100, 100, 1 << 40})
	nkeys := 3 + rng.Intn(3) // never "e" ...
	if core.Chance(rng, 1, 6) {
		nkeys = 6 // ... except in one history out of six: the empty value
	}
	keys := allKeys[:nkeys]
	setConfig(h, capacity, maxBytes, keys)
	sizes := []int64{0, 10, 40, 40, 90, 150}
	hostile := core.Chance(rng, 1, 8)    // negative sizes (rejected by the LRU; outside C17's domain)
	withRemove := core.Chance(rng, 1, 6) // Remove / Clear (outside C17's domain; the monitor forgets the keys)
	nops := 15 + rng.Intn(36)
	for i := 0; i < nops; i++ {
		k := core.Pick(rng, keys)
		r := rng.Intn(100)
		switch {
		case r < 55:
			sz := core.Pick(rng, sizes)
			if hostile && core.Chance(rng, 1, 6) {
				sz = -1
			}
			addPut(h, k, sz)
		case r < 70:
			addKeyOp(h, opGet, k)
		case r < 80:
			addKeyOp(h, opHas, k)
		case r < 90:
			addKeyOp(h, opPeek, k)
		default:
			if withRemove {
				if core.Chance(rng, 1, 4) {
					h.Add(opClear, "Clear")
				} else {
					addKeyOp(h, opRemove, k)
				}
			} else {
				addPut(h, k, core.Pick(rng, sizes))
			}
		}
	}
	return h
}

type xop struct {
	code int
	k    []byte
	sz   int64
}

// Exhaustive: every sequence of a fixed length over 10 op instances on 3 keys, three configurations.
func (comp) Exhaustive(prop string, tier string, yield func(*core.History)) {
	a, b, c := []byte("a"), []byte("b"), []byte("c")
	keys := [][]byte{a, b, c}
	ops := []xop{
		{opPut, a, 40}, {opPut, b, 40}, {opPut, c, 40}, {opPut, a, 90}, {opPut, b, 150}, {opPut, c, 0},
		{opGet, a, 0}, {opGet, b, 0}, {opHas, c, 0}, {opPeek, a, 0}}
	type scope struct {
		capacity int
		maxBytes int64
	}
	length := 4
	if tier == "thorough" {
		length = 5
	}
	for _, sc := range []scope{{2, 100}, {1, 50}, {3, 100}} {
		idx := make([]int, length)
		for {
			h := &core.History{}
			setConfig(h, sc.capacity, sc.maxBytes, keys)
			for _, i := range idx {
				x := ops[i]
				if x.code == opPut {
					addPut(h, x.k, x.sz)
				} else {
					addKeyOp(h, x.code, x.k)
				}
			}
			yield(h)
			p := length - 1
			for p >= 0 {
				idx[p]++
				if idx[p] < len(ops) {
					break
				}
				idx[p] = 0
				p--
			}
			if p < 0 {
				break
			}
		}
	}
}

// ---- run

func blobBytes(v interface{}, ok bool) ([]byte, bool) {
	if !ok {
		return nil, false
	}
	x, isBlob := v.(*blob)
	if !isBlob || x == nil {
		return nil, false
	}
	if x.b == nil {
		return []byte{}, true
	}
	return x.b, true
}

func ob(v []byte, ok bool) string {
	if !ok {
		return "-"
	}
	return core.B(v)
}

func keySet(ks []interface{}) map[string]bool {
	m := map[string]bool{}
	for _, k := range ks {
		m[k.(string)] = true
	}
	return m
}

func (comp) Run(h *core.History, scratch string) *core.Result {
	res := &core.Result{}
	cfg := core.ParseArgs(h.Config)
	capacity0, maxBytes := cfg[0].Int(), cfg[1].I64()
	var alpha [][]byte
	for _, a := range cfg[2].List {
		alpha = append(alpha, a.Bytes())
	}
	cacher, err := capacity.NewCapacityLRU(capacity0, maxBytes)
	if err != nil {
		res.Obs = append(res.Obs, "init-rejected")
		return res
	}
	mdb := memorydb.New()
	rec := &recorder{DB: mdb}
	marshUsed := false
	ad, err := storageCacherAdapter.NewStorageCacherAdapter(cacher, rec, blobFactory{}, noMarshaller{&marshUsed})
	if err != nil {
		res.Obs = append(res.Obs, "init-rejected")
		return res
	}

	// the monitor's own bookkeeping, from the text of C17: key -> value for "every key put so far"
	putSoFar := map[string][]byte{}
	everSpilled := map[string]bool{}
	lastSize := map[string]int64{} // size of the latest accepted Put per key (situation accounting only)

	persisted := func(k string) ([]byte, bool) {
		v, err := mdb.Get([]byte(k))
		if err != nil {
			return nil, false
		}
		return v, true
	}

	for i, op := range h.Ops {
		a := op.Parsed()
		var toks []string
		memBefore := keySet(cacher.Keys())
		valBefore := map[string][]byte{}
		for k := range memBefore {
			v, _ := blobBytes(cacher.Peek(k))
			valBefore[k] = v
		}
		rec.written = nil
		switch op.Code {
		case opPut:
			k, v, sz := a[0].Bytes(), a[1].Bytes(), a[2].I64()
			_, wasInDB := persisted(string(k))
			flag := ad.Put(k, &blob{b: v}, int(sz))
			toks = append(toks, core.Lbl(1, core.Bool(flag)))
			if sz >= 0 {
				if len(v) > 0 {
					putSoFar[string(k)] = v
				}
				if prev, ok := lastSize[string(k)]; ok && memBefore[string(k)] {
					if sz > prev {
						res.Hit("re-put-grow")
					} else if sz < prev {
						res.Hit("re-put-shrink")
					}
				}
				lastSize[string(k)] = sz
				if !memBefore[string(k)] && wasInDB {
					res.Hit("re-put-of-spilled-key")
				}
				if memBefore[string(k)] {
					res.Hit("re-put-of-resident-key")
				}
				if sz > maxBytes {
					res.Hit("oversized-single-item")
				}
			} else {
				res.Hit("put-rejected-negative-size")
			}
			// C17: "Put's return value says whether anything was spilled"
			memAfter := keySet(cacher.Keys())
			left, leftNonEmpty := 0, 0
			for kk := range memBefore {
				if !memAfter[kk] {
					left++
					if len(valBefore[kk]) > 0 {
						leftNonEmpty++
					} else {
						res.Hit("empty-value-skipped")
					}
				}
			}
			if flag != (left > 0) {
				res.Failf("C17", i, "Put(%s,%d) returned %v although %d entries left the memory tier", k, sz, flag, left)
			}
			if left == leftNonEmpty && flag != (len(rec.written) > 0) {
				res.Failf("C17", i, "Put(%s,%d) returned %v although it wrote %d entries to the persister", k, sz, flag, len(rec.written))
			}
			if left > 0 {
				res.Hit("spill")
				if left > 1 {
					res.Hit("spill-of-several")
				}
				if memBefore[string(k)] {
					res.Hit("re-put-larger-spills")
				}
			}
		case opGet:
			k := a[0].Bytes()
			v, ok := blobBytes(ad.Get(k))
			toks = append(toks, core.Lbl(2, ob(v, ok)), core.Lbl(3, core.Bool(ok)))
			if want, was := putSoFar[string(k)]; was {
				if !ok || !bytes.Equal(v, want) {
					res.Failf("C17", i, "Get(%s) = (%x,%v) although the key was put with value %x", k, v, ok, want)
				}
				if !memBefore[string(k)] {
					res.Hit("get-from-persister")
				}
			}
		case opHas:
			k := a[0].Bytes()
			has := ad.Has(k)
			toks = append(toks, core.Lbl(4, core.Bool(has)))
			if _, was := putSoFar[string(k)]; was && !has {
				res.Failf("C17", i, "Has(%s) = false although the key was put", k)
			}
		case opPeek:
			k := a[0].Bytes()
			v, ok := blobBytes(ad.Peek(k))
			toks = append(toks, core.Lbl(5, ob(v, ok)), core.Lbl(6, core.Bool(ok)))
		case opRemove:
			k := a[0].Bytes()
			ad.Remove(k)
			delete(putSoFar, string(k)) // outside C17: the key is no longer "put so far"
			res.Hit("remove")
		case opClear:
			ad.Clear()
			for kk := range memBefore { // outside C17: Clear drops the memory tier without spilling
				if _, inDB := persisted(kk); !inDB {
					delete(putSoFar, kk)
				}
			}
			res.Hit("clear")
		}

		// ---- observables
		ckeys := cacher.Keys()
		memAfter := keySet(ckeys)
		ktoks := make([]string, len(ckeys))
		for j, k := range ckeys {
			ktoks[j] = core.B([]byte(k.(string)))
		}
		type kv struct{ k, v []byte }
		var content []kv
		mdb.RangeKeys(func(k, v []byte) bool {
			content = append(content, kv{append([]byte{}, k...), append([]byte{}, v...)})
			return true
		})
		sort.Slice(content, func(x, y int) bool { return bytes.Compare(content[x].k, content[y].k) < 0 })
		ctoks := make([]string, len(content))
		for j, c := range content {
			ctoks[j] = core.L(core.B(c.k), core.B(c.v))
		}
		peeks := make([]string, len(alpha))
		hass := make([]string, len(alpha))
		for j, k := range alpha {
			v, ok := blobBytes(ad.Peek(k))
			peeks[j] = ob(v, ok)
			hass[j] = core.Bool(ad.Has(k))
		}
		toks = append(toks,
			core.Lbl(10, core.L(ktoks...)), core.Lbl(11, core.N(uint64(cacher.Len()))), core.Lbl(12, core.N(cacher.SizeInBytesContained())),
			core.Lbl(13, core.L(ctoks...)), core.Lbl(14, core.L(peeks...)), core.Lbl(15, core.L(hass...)),
			core.Lbl(16, core.I(int64(ad.Len()))), core.Lbl(17, core.SortedLB(ad.Keys())))
		res.AddObs(toks...)

		// ---- monitors (text of C17)
		// "every key put so far is still reported by Has and returned by Get with its value, whether it lives
		// in the bounded in-memory tier or has been spilled" (Get itself refreshes recency, so between Get
		// operations the two tiers are read without side effect: Peek, then the persister)
		for k, want := range putSoFar {
			if !ad.Has([]byte(k)) {
				res.Failf("C17", i, "Has(%s) = false although the key was put (value %x)", k, want)
			}
			v, ok := blobBytes(ad.Peek([]byte(k)))
			if !ok {
				v, ok = persisted(k)
			}
			if !ok || !bytes.Equal(v, want) {
				res.Failf("C17", i, "key %s (put with value %x) is in neither tier with its value: found (%x,%v)", k, want, v, ok)
			}
		}
		// "Entries leave the memory tier only by being written to the persister first"
		if op.Code != opRemove && op.Code != opClear {
			for k := range memBefore {
				if memAfter[k] || len(valBefore[k]) == 0 {
					continue
				}
				everSpilled[k] = true
				if v, ok := persisted(k); !ok || !bytes.Equal(v, valBefore[k]) {
					res.Failf("C17", i, "entry %s (value %x) left the memory tier but the persister holds (%x,%v)", k, valBefore[k], v, ok)
				}
			}
		}
		if marshUsed {
			res.Failf("*", i, "the marshaller stub was called: values are not handled as SerializedStoredData")
			marshUsed = false
		}
	}
	// end of history: Get of every key put so far (recency no longer matters)
	for k, want := range putSoFar {
		v, ok := blobBytes(ad.Get([]byte(k)))
		if !ok || !bytes.Equal(v, want) {
			res.Failf("C17", len(h.Ops)-1, "final Get(%s) = (%x,%v) although the key was put with value %x", k, v, ok, want)
		}
	}
	return res
}
