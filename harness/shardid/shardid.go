// Package shardid drives sharded.NewShardIDProvider / ComputeId (C19).
package shardid

import (
	"fmt"
	"math/bits"
	"math/rand"
	"runtime"
	"sync"

	"github.com/multiversx/mx-chain-storage-go/sharded"
	"verifharness/core"
)

type comp struct{}

func init() { core.Register(comp{}) }

func (comp) Name() string { return "shardid" }

const maxShards = uint64(1<<31 - 1)

func interestingCounts() []uint64 {
	var out []uint64
	for j := 1; j <= 31; j++ {
		p := uint64(1) << uint(j)
		for d := int64(-4); d <= 4; d++ {
			v := int64(p) + d
			if v >= 2 && uint64(v) <= maxShards {
				out = append(out, uint64(v))
			}
		}
	}
	return out
}

func randKey(rng *rand.Rand) []byte {
	n := core.Pick(rng, []int{0, 0, 1, 1, 2, 2, 3, 4, 5, 8, 32})
	k := make([]byte, n)
	for i := range k {
		k[i] = core.Pick(rng, []byte{0, 1, 2, 0x7f, 0x80, 0xfe, 0xff, byte(rng.Intn(256))})
	}
	return k
}

func (comp) Gen(prop string, rng *rand.Rand, tier string) *core.History {
	h := &core.History{}
	nops := 20 + rng.Intn(20)
	ic := interestingCounts()
	for i := 0; i < nops; i++ {
		var n uint64
		switch rng.Intn(4) {
		case 0:
			n = 2 + uint64(rng.Intn(40))
		case 1:
			n = core.Pick(rng, ic)
		case 2:
			n = 2 + uint64(rng.Int63n(int64(maxShards-1)))
		default:
			n = 2 + uint64(rng.Intn(70000))
		}
		if rng.Intn(12) == 0 {
			z := core.Pick(rng, []int64{-2147483648, -7, -1, 0, 1, 2, 3, 2147483647})
			h.Add(3, fmt.Sprintf("constructor n=%d", z), core.I(z))
		} else if rng.Intn(5) == 0 {
			h.Add(2, fmt.Sprintf("fields n=%d", n), core.N(n))
		} else {
			h.Add(1, fmt.Sprintf("compute_id n=%d", n), core.N(n), core.B(randKey(rng)))
		}
	}
	return h
}

// Exhaustive: all shard counts up to a bound with all one- and two-byte suffixes (and the empty key).
func (comp) Exhaustive(prop string, tier string, yield func(*core.History)) {
	bound := 40
	if tier == "thorough" {
		bound = 300
	}
	for n := 2; n <= bound; n++ {
		h := &core.History{}
		h.Add(2, "", core.N(uint64(n)))
		h.Add(1, "", core.N(uint64(n)), core.B([]byte{}))
		for a := 0; a < 256; a++ {
			h.Add(1, "", core.N(uint64(n)), core.B([]byte{byte(a)}))
		}
		step := 1
		if tier != "thorough" && n > 12 {
			step = 7 // quick: a stride over the two-byte suffixes beyond small n
		}
		for ab := 0; ab < 65536; ab += step {
			h.Add(1, "", core.N(uint64(n)), core.B([]byte{byte(ab >> 8), byte(ab)}))
		}
		yield(h)
	}
}

func (comp) Run(h *core.History, scratch string) *core.Result {
	res := &core.Result{}
	for i, op := range h.Ops {
		a := op.Parsed()
		if op.Code == 3 {
			// the constructor's verdict on a (possibly negative) int32 count
			z := a[0].I64()
			_, cerr := sharded.NewShardIDProvider(int32(z))
			res.AddObs(core.Lbl(5, core.Bool(cerr == nil)))
			res.Hit("constructor-verdict")
			// monitor (C19: total and in range for every count the constructor accepts): a count below 1 cannot be routed in range
			if cerr == nil && z < 1 {
				res.Failf("C19", i, "NewShardIDProvider(%d) accepted a shard count for which no id can be in range", z)
			}
			continue
		}
		n := a[0].U64()
		sp, err := sharded.NewShardIDProvider(int32(n))
		if err != nil {
			res.AddObs("!err")
			continue
		}
		switch op.Code {
		case 1:
			key := a[1].Bytes()
			id := sp.ComputeId(key)
			res.AddObs(core.Lbl(1, core.N(uint64(id))))
			// monitor: in range, depends only on the trailing bytes
			if uint64(id) >= n {
				res.Failf("C19", i, "ComputeId(n=%d, key=%x) = %d is out of range", n, key, id)
			}
			_, _, bn := sp.VerifFields()
			if len(key) > bn {
				pre := append([]byte{0xAA, 0x55}, key[len(key)-bn:]...)
				if id2 := sp.ComputeId(pre); id2 != id {
					res.Failf("C19", i, "ComputeId depends on bytes before the last %d: %x -> %d, %x -> %d (n=%d)", bn, key, id, pre, id2, n)
				}
				res.Hit("long-key")
			}
			if len(key) == 0 {
				res.Hit("empty-key")
			}
			if n&(n-1) != 0 {
				res.Hit("non-power-of-two")
			}
		case 2:
			// the list of shard ids belongs to the caller: scribbling over one result must not change the next one
			if n <= 1<<16 { // (the list has n entries: not for the counts near 2^31)
				ids := sp.GetShardIDs()
				for k := range ids {
					ids[k] = 0xdeadbeef
				}
				ids2 := sp.GetShardIDs()
				if uint64(len(ids2)) != n {
					res.Failf("C19", i, "GetShardIDs lists %d ids for %d shards", len(ids2), n)
				}
				for k := range ids2 {
					if ids2[k] != uint32(k) {
						res.Failf("C19", i, "GetShardIDs()[%d] = %d after the caller overwrote an earlier result (n=%d): the ids are not [0,n)", k, ids2[k], n)
						break
					}
				}
			}
			mh, ml, bn := sp.VerifFields()
			res.AddObs(core.Lbl(2, core.N(uint64(mh))), core.Lbl(3, core.N(uint64(ml))), core.Lbl(4, core.N(uint64(bn))))
			res.Hit("fields")
		}
	}
	return res
}

// expected derived fields, by integer arithmetic (the 31-row table the Coq lemma steps_fields justifies)
func expectedFields(n uint64) (uint32, uint32, int) {
	j := bits.Len64(n - 1) // = log2_up n for n >= 2
	mh := uint32((uint64(1) << uint(j)) - 1)
	ml := uint32((uint64(1) << uint(j-1)) - 1)
	bn := (bits.Len64(n-1)-1)/8 + 1
	return mh, ml, bn
}

// Extra: sweep of the derived fields over the domain of shard counts, plus onto-ness.
func (comp) Extra(prop string, tier string, seed int64, scratch string) *core.ExtraResult {
	res := &core.ExtraResult{Counts: map[string]int{}}
	var ranges [][2]uint64
	if tier == "thorough" {
		ranges = append(ranges, [2]uint64{2, maxShards})
		res.Exhaustive = true
		res.Rule = "every shard count n in [2, 2^31-1]: derived fields maskHigh/maskLow/bytesNeeded read through the verif export equal the integer definitions (Coq lemma steps_fields); for n <= 2^12 additionally every id < n is hit by its big-endian encoding"
	} else {
		ranges = append(ranges, [2]uint64{2, 1 << 17})
		for j := 18; j <= 31; j++ {
			p := uint64(1) << uint(j)
			lo, hi := p-64, p+64
			if hi > maxShards {
				hi = maxShards
			}
			ranges = append(ranges, [2]uint64{lo, hi})
		}
		res.Rule = "shard counts n in [2, 2^17] and +-64 around every power of two up to 2^31-1: derived fields equal the integer definitions; onto-ness for n <= 2^10"
	}
	var mu sync.Mutex
	workers := runtime.NumCPU()
	for _, rg := range ranges {
		var wg sync.WaitGroup
		span := rg[1] - rg[0] + 1
		chunk := span/uint64(workers) + 1
		for w := 0; w < workers; w++ {
			lo := rg[0] + uint64(w)*chunk
			hi := lo + chunk - 1
			if hi > rg[1] {
				hi = rg[1]
			}
			if lo > rg[1] {
				break
			}
			wg.Add(1)
			go func(lo, hi uint64) {
				defer wg.Done()
				local := 0
				var fails []core.Fail
				for n := lo; n <= hi; n++ {
					sp, err := sharded.NewShardIDProvider(int32(n))
					if err != nil {
						fails = append(fails, core.Fail{Property: "C19", Step: -1, Msg: fmt.Sprintf("NewShardIDProvider(%d) rejected", n)})
						continue
					}
					mh, ml, bn := sp.VerifFields()
					emh, eml, ebn := expectedFields(n)
					if mh != emh || ml != eml || bn != ebn {
						if len(fails) < 5 {
							fails = append(fails, core.Fail{Property: "C19", Step: -1, Msg: fmt.Sprintf("derived fields for n=%d are (%d,%d,%d), the integer definitions give (%d,%d,%d)", n, mh, ml, bn, emh, eml, ebn)})
						}
					}
					local++
				}
				mu.Lock()
				res.Evaluations += local
				res.Fails = append(res.Fails, fails...)
				mu.Unlock()
			}(lo, hi)
		}
		wg.Wait()
	}
	res.Distinct = res.Evaluations
	res.Counts["field_checks"] = res.Evaluations
	// onto: every id is produced by the big-endian encoding of itself on bytesNeeded bytes
	ontoBound := uint64(1 << 10)
	if tier == "thorough" {
		ontoBound = 1 << 12
	}
	onto := 0
	for n := uint64(2); n <= ontoBound; n++ {
		sp, _ := sharded.NewShardIDProvider(int32(n))
		_, _, bn := sp.VerifFields()
		for id := uint64(0); id < n; id++ {
			key := make([]byte, bn)
			v := id
			for k := bn - 1; k >= 0; k-- {
				key[k] = byte(v)
				v >>= 8
			}
			if got := sp.ComputeId(key); uint64(got) != id {
				if len(res.Fails) < 10 {
					res.Fails = append(res.Fails, core.Fail{Property: "C19", Step: -1, Msg: fmt.Sprintf("n=%d: id %d is not produced by its encoding %x (got %d)", n, id, key, got)})
				}
			}
			onto++
		}
	}
	res.Evaluations += onto
	res.Counts["onto_checks"] = onto
	res.Samples = []string{"n=2 -> (1,0,1)", "n=257 -> (511,255,2)", "n=65537 -> (131071,65535,3)", "n=2147483647 -> (2147483647,1073741823,4)"}
	for i := range res.Fails {
		res.Replays = append(res.Replays, res.Fails[i].Msg)
	}
	return res
}
