#!/bin/sh
# Build the framework from files on disk only (offline): Coq development (full .vo build),
# extraction + OCaml runner, Go harness against /repo with -tags verif.
set -e
cd "$(dirname "$0")"
export GOFLAGS=-mod=mod GOPROXY=off GOSUMDB=off GOTOOLCHAIN=local
exec python3 ./check --build
