(* Generic driver: reads history files, runs the extracted Coq components,
   prints labelled observables. Trusted glue: tokenising, hex <-> positive. *)
open BinNums
open Generic

let rec pos_of_z (z : Z.t) : positive =
  if Z.equal z Z.one then Coq_xH
  else if Z.testbit z 0 then Coq_xI (pos_of_z (Z.shift_right z 1))
  else Coq_xO (pos_of_z (Z.shift_right z 1))

let rec z_of_pos (p : positive) : Z.t =
  match p with
  | Coq_xH -> Z.one
  | Coq_xO q -> Z.shift_left (z_of_pos q) 1
  | Coq_xI q -> Z.succ (Z.shift_left (z_of_pos q) 1)

let coqz_of_z (z : Z.t) : coq_Z =
  if Z.sign z = 0 then Z0 else if Z.sign z > 0 then Zpos (pos_of_z z) else Zneg (pos_of_z (Z.neg z))
let z_of_coqz = function Z0 -> Z.zero | Zpos p -> z_of_pos p | Zneg p -> Z.neg (z_of_pos p)
let coqn_of_int (i : int) : coq_N = if i = 0 then N0 else Npos (pos_of_z (Z.of_int i))
let int_of_coqn = function N0 -> 0 | Npos p -> Z.to_int (z_of_pos p)

let hex_to_bytes (s : string) : coq_N list =
  let n = String.length s / 2 in
  Stdlib.List.init n (fun i -> coqn_of_int (int_of_string ("0x" ^ String.sub s (2 * i) 2)))

let bytes_to_hex (l : coq_N list) : string =
  String.concat "" (Stdlib.List.map (fun b -> Printf.sprintf "%02x" (int_of_coqn b)) l)

(* parse a token list into gargs *)
let rec parse_args (toks : string list) : garg list * string list =
  match toks with
  | [] -> ([], [])
  | "]" :: rest -> ([], rest)
  | "[" :: rest ->
      let (inner, rest') = parse_args rest in
      let (more, rest'') = parse_args rest' in
      (GL inner :: more, rest'')
  | "-" :: rest -> let (more, r) = parse_args rest in (GNil :: more, r)
  | t :: rest ->
      let body = String.sub t 1 (String.length t - 1) in
      let a =
        match t.[0] with
        | 'n' -> GN (coqz_of_z (Z.of_string_base 16 body))
        | 'm' -> GN (coqz_of_z (Z.neg (Z.of_string_base 16 body)))
        | 'b' -> GB (hex_to_bytes body)
        | _ -> failwith ("bad token " ^ t)
      in
      let (more, r) = parse_args rest in (a :: more, r)

let rec print_arg (b : Buffer.t) (a : garg) : unit =
  match a with
  | GN z ->
      let z = z_of_coqz z in
      if Z.sign z >= 0 then (Buffer.add_char b 'n'; Buffer.add_string b (Z.format "%x" z))
      else (Buffer.add_char b 'm'; Buffer.add_string b (Z.format "%x" (Z.neg z)))
  | GB l -> Buffer.add_char b 'b'; Buffer.add_string b (bytes_to_hex l)
  | GNil -> Buffer.add_char b '-'
  | GL l ->
      Buffer.add_string b "[";
      Stdlib.List.iter (fun x -> Buffer.add_char b ' '; print_arg b x) l;
      Buffer.add_string b " ]"

let strip_comment (line : string) : string =
  match String.index_opt line '#' with
  | Some i -> String.sub line 0 i
  | None -> line

let tokens (line : string) : string list =
  Stdlib.List.filter (fun s -> s <> "") (String.split_on_char ' ' (strip_comment line))

let () =
  let file = Sys.argv.(1) in
  let ic = open_in file in
  let out = Buffer.create 65536 in
  let comp : component option ref = ref None in
  let state : Obj.t option ref = ref None in
  let flush_out () = print_string (Buffer.contents out); Buffer.clear out in
  (try
     while true do
       let line = input_line ic in
       match tokens line with
       | [] -> ()
       | "history" :: id :: _ ->
           Buffer.add_string out ("history " ^ id ^ "\n"); comp := None; state := None
       | "component" :: name :: _ ->
           (match Stdlib.List.assoc_opt name Registry.components with
            | Some c -> comp := Some c
            | None -> failwith ("unknown component " ^ name))
       | "config" :: rest ->
           let (args, _) = parse_args rest in
           (match !comp with
            | None -> failwith "config before component"
            | Some c ->
                (match c.c_init args with
                 | None -> Buffer.add_string out "init-rejected\n"; state := None
                 | Some s -> state := Some s))
       | "o" :: code :: rest ->
           let (args, _) = parse_args rest in
           (match !comp, !state with
            | Some c, Some s ->
                let (s', obs) = c.c_step s (coqn_of_int (int_of_string code)) args in
                state := Some s';
                Buffer.add_char out 'r';
                Stdlib.List.iter
                  (fun (lbl, a) ->
                    Buffer.add_char out ' ';
                    Buffer.add_string out (string_of_int (int_of_coqn lbl));
                    Buffer.add_char out '=';
                    print_arg out a)
                  obs;
                Buffer.add_char out '\n'
            | _ -> Buffer.add_string out "r !nostate\n");
           if Buffer.length out > 60000 then flush_out ()
       | "end" :: _ -> ()
       | t :: _ -> failwith ("bad line: " ^ t)
     done
   with End_of_file -> ());
  flush_out ()
