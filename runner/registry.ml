(* name -> extracted component *)
let components : (string * Generic.component) list = [
  ("shardid", ShardIdComp.shardid_component);
  ("pool", PoolComp.pool_component);
  ("timecache", TimeCacheComp.timecache_component);
  ("unit", UnitComp.unit_component);
  ("persist", PersistComp.persist_component);
  ("fifo", FifoComp.fifo_component);
  ("lru", LruComp.lru_component);
  ("adapter", AdapterComp.adapter_component);
  ("immunity", ImmunityComp.immunity_component);
  ("crash", CrashComp.crash_component);
]
